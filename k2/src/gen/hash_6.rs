// hash_6
#![allow(dead_code, unused_variables, unused_mut, unused_imports, non_shorthand_field_patterns, clippy::all)]
use crate::support::*;
use educe::Educe;
use core::cmp::Ordering;
#[derive(Educe)]
#[educe(Hash)]
pub enum T { None { #[educe(Hash(ignore = true))] r#type: A<0>, #[educe(Hash(ignore))] arg: A<1> }, Unit { #[educe(Hash(method = "m_hash"))] builder: A<0>, x: A<1> } }
pub fn values() -> Vec<T> { vec![T::None { r#type: A(0), arg: A(0) }, T::None { r#type: A(0), arg: A(1) }, T::None { r#type: A(0), arg: A(7) }, T::None { r#type: A(1), arg: A(0) }, T::None { r#type: A(1), arg: A(1) }, T::None { r#type: A(1), arg: A(7) }, T::None { r#type: A(7), arg: A(0) }, T::None { r#type: A(7), arg: A(1) }, T::None { r#type: A(7), arg: A(7) }, T::Unit { builder: A(0), x: A(0) }, T::Unit { builder: A(0), x: A(1) }, T::Unit { builder: A(0), x: A(7) }, T::Unit { builder: A(1), x: A(0) }, T::Unit { builder: A(1), x: A(1) }, T::Unit { builder: A(1), x: A(7) }, T::Unit { builder: A(7), x: A(0) }, T::Unit { builder: A(7), x: A(1) }, T::Unit { builder: A(7), x: A(7) }] }
pub fn show(x: &T) -> String { #[allow(unused_variables)] match x { T::None { r#type: p0, arg: p1 } => format!("None({},{})", sv(p0), sv(p1)), T::Unit { builder: p0, x: p1 } => format!("Unit({},{})", sv(p0), sv(p1)) } }
pub fn o_hash(x: &T) -> Vec<String> { let mut e = Rec::default(); match x { T::None { r#type: p0, arg: p1 } => { ::core::hash::Hash::hash(&0usize, &mut e); }, T::Unit { builder: p0, x: p1 } => { ::core::hash::Hash::hash(&1usize, &mut e); m_hash(p0, &mut e); ::core::hash::Hash::hash(p1, &mut e); } } e.0 }
pub fn run(out: &mut Out) { let vs = values(); for a in &vs { let mut g = Rec::default(); ::core::hash::Hash::hash(a, &mut g); let e = o_hash(a); out.check(g.0 == e, "hash_6", "hash", || format!("hash({}) fed {:?} expected {:?}", show(a), g.0, e)); } }
