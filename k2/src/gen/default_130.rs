// default_130
#![allow(dead_code, unused_variables, unused_mut, unused_imports, non_shorthand_field_patterns, clippy::all)]
use crate::support::*;
use educe::Educe;
use core::cmp::Ordering;
#[derive(Educe)]
#[educe(Default(new(true)))]
pub enum T { A, #[educe(Default)] None(u64) }
pub fn show(x: &T) -> String { #[allow(unused_variables)] match x { T::A => format!("A()"), T::None(p0) => format!("None({})", sv(p0)) } }
pub fn o_default() -> T { T::None(0u64) }
pub fn run(out: &mut Out) { let g = <T as ::core::default::Default>::default(); let e = o_default(); out.check(show(&g) == show(&e), "default_130", "default", || format!("default() = {} expected {}", show(&g), show(&e))); let g = T::new(); let e = o_default(); out.check(show(&g) == show(&e), "default_130", "new", || format!("new() = {} expected {}", show(&g), show(&e))); }
