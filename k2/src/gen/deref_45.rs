// deref_45
#![allow(dead_code, unused_variables, unused_mut, unused_imports, non_shorthand_field_patterns, clippy::all)]
use crate::support::*;
use educe::Educe;
use core::cmp::Ordering;
#[derive(Educe)]
#[educe(Deref)]
pub struct T(A<2>, #[educe(Deref)] A<0>, A<2>, A<2>);
pub fn values() -> Vec<T> { vec![T(A(1), A(0), A(1), A(1)), T(A(7), A(0), A(0), A(1)), T(A(7), A(0), A(1), A(0)), T(A(1), A(0), A(7), A(0)), T(A(7), A(0), A(7), A(1)), T(A(1), A(7), A(0), A(1)), T(A(0), A(1), A(1), A(7)), T(A(0), A(0), A(0), A(7)), T(A(0), A(0), A(0), A(0)), T(A(0), A(7), A(1), A(1)), T(A(1), A(1), A(0), A(0)), T(A(0), A(0), A(7), A(1)), T(A(7), A(1), A(0), A(0)), T(A(0), A(7), A(7), A(1)), T(A(0), A(1), A(1), A(1)), T(A(1), A(1), A(0), A(7))] }
pub fn show(x: &T) -> String { #[allow(unused_variables)] match x { T(p0, p1, p2, p3) => format!("T({},{},{},{})", sv(p0), sv(p1), sv(p2), sv(p3)) } }
pub fn o_deref(x: &T) -> *const A<0> { match x { T(_, p1, _, _) => p1 as *const A<0> } }
pub fn run(out: &mut Out) { let vs = values(); for a in &vs { let g = ::core::ops::Deref::deref(a) as *const A<0>; let e = o_deref(a); out.check(g == e, "deref_45", "deref", || format!("&*{} has another address than the designated field", show(a))); } }
