// ordlayout_125
#![allow(dead_code, unused_variables, unused_mut, unused_imports, non_shorthand_field_patterns, clippy::all)]
use crate::support::*;
use educe::Educe;
use core::cmp::Ordering;
#[derive(Educe)]
#[educe(PartialEq, PartialOrd, Eq)]
pub enum T { B { f: ::core::num::NonZeroU8, size: char }, C(u8, Option<u8>), V1 }

pub fn values() -> Vec<T> { vec![T::B { f: ::core::num::NonZeroU8::new(1).unwrap(), size: 'a' }, T::B { f: ::core::num::NonZeroU8::new(1).unwrap(), size: 'z' }, T::B { f: ::core::num::NonZeroU8::new(200).unwrap(), size: 'a' }, T::B { f: ::core::num::NonZeroU8::new(200).unwrap(), size: 'z' }, T::C(0, None), T::C(0, Some(0)), T::C(0, Some(255)), T::C(100, None), T::C(100, Some(0)), T::C(100, Some(255)), T::C(200, None), T::C(200, Some(0)), T::C(200, Some(255)), T::V1] }
pub fn show(x: &T) -> String { #[allow(unused_variables)] match x { T::B { f: p0, size: p1 } => format!("B({},{})", sv(p0), sv(p1)), T::C(p0, p1) => format!("C({},{})", sv(p0), sv(p1)), T::V1 => format!("V1()") } }
pub fn o_disc(x: &T) -> i128 { match x { T::B { f: _, size: _ } => 0, T::C(_, _) => 1, T::V1 => 2 } }
pub fn o_pcmp(a: &T, b: &T) -> Option<Ordering> { match (a, b) { (T::B { f: a0, size: a1 }, T::B { f: b0, size: b1 }) => { match ::core::cmp::PartialOrd::partial_cmp(a0, b0) { Some(Ordering::Equal) => (), x => return x } match ::core::cmp::PartialOrd::partial_cmp(a1, b1) { Some(Ordering::Equal) => (), x => return x } Some(Ordering::Equal) }, (T::C(a0, a1), T::C(b0, b1)) => { match ::core::cmp::PartialOrd::partial_cmp(a0, b0) { Some(Ordering::Equal) => (), x => return x } match ::core::cmp::PartialOrd::partial_cmp(a1, b1) { Some(Ordering::Equal) => (), x => return x } Some(Ordering::Equal) }, (T::V1, T::V1) => {  Some(Ordering::Equal) }, _ => Some(o_disc(a).cmp(&o_disc(b))) } }
#[repr(C)] pub struct Wrap { pub pre: u8, pub x: T, pub post: [u8; 9] }
pub fn wrap(i: usize, n: u8) -> Wrap { Wrap { pre: n, x: values().swap_remove(i), post: [n; 9] } }
pub fn run(out: &mut Out) { let vs = values(); for (i, a) in vs.iter().enumerate() { for (j, b) in vs.iter().enumerate() { let e = o_pcmp(a, b); let g = ::core::cmp::PartialOrd::partial_cmp(a, b); out.check(g == e, "ordlayout_125", "partial_cmp", || format!("partial_cmp({}, {}) = {:?} expected {:?}", show(a), show(b), g, e)); for n in [0u8, 1, 0x7f, 0x80, 0xff] { let wa = wrap(i, n); let wb = wrap(j, !n); let g = ::core::cmp::PartialOrd::partial_cmp(&wa.x, &wb.x); let e = o_pcmp(a, b); out.check(g == e, "ordlayout_125", "cmp_neighbours", || format!("cmp({}, {}) with neighbour bytes {} = {:?} expected {:?}", show(a), show(b), n, g, e)); } } } }
