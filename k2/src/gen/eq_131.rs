// eq_131
#![allow(dead_code, unused_variables, unused_mut, unused_imports, non_shorthand_field_patterns, clippy::all)]
use crate::support::*;
use educe::Educe;
use core::cmp::Ordering;
#[derive(Educe)]
#[educe(PartialEq, Eq)]
pub enum T { A { #[educe(Eq(method = "m_eq"))] data: A<0>, #[educe(PartialEq(method("m_eq")))] a: A<1>, #[educe(PartialEq(ignore(true)))] other: A<2> }, Some(A<0>, #[educe(Eq = true)] A<1>), B { #[educe(PartialEq(method = m_eq))] arg: A<0> }, Zed }
pub fn values() -> Vec<T> { vec![T::A { data: A(7), a: A(0), other: A(1) }, T::A { data: A(7), a: A(1), other: A(7) }, T::A { data: A(0), a: A(0), other: A(1) }, T::A { data: A(7), a: A(0), other: A(0) }, T::A { data: A(0), a: A(7), other: A(0) }, T::A { data: A(7), a: A(1), other: A(1) }, T::A { data: A(1), a: A(1), other: A(7) }, T::A { data: A(1), a: A(1), other: A(1) }, T::A { data: A(0), a: A(7), other: A(7) }, T::A { data: A(0), a: A(0), other: A(7) }, T::A { data: A(0), a: A(7), other: A(1) }, T::A { data: A(7), a: A(7), other: A(1) }, T::Some(A(0), A(0)), T::Some(A(0), A(1)), T::Some(A(0), A(7)), T::Some(A(1), A(0)), T::Some(A(1), A(1)), T::Some(A(1), A(7)), T::Some(A(7), A(0)), T::Some(A(7), A(1)), T::Some(A(7), A(7)), T::B { arg: A(0) }, T::B { arg: A(1) }, T::B { arg: A(7) }, T::Zed] }
pub fn show(x: &T) -> String { #[allow(unused_variables)] match x { T::A { data: p0, a: p1, other: p2 } => format!("A({},{},{})", sv(p0), sv(p1), sv(p2)), T::Some(p0, p1) => format!("Some({},{})", sv(p0), sv(p1)), T::B { arg: p0 } => format!("B({})", sv(p0)), T::Zed => format!("Zed()") } }
pub fn o_eq(a: &T, b: &T) -> bool { match (a, b) { (T::A { data: a0, a: a1, other: a2 }, T::A { data: b0, a: b1, other: b2 }) => m_eq(a0, b0) && m_eq(a1, b1), (T::Some(a0, a1), T::Some(b0, b1)) => (a0 == b0) && (a1 == b1), (T::B { arg: a0 }, T::B { arg: b0 }) => m_eq(a0, b0), (T::Zed, T::Zed) => true, _ => false } }
pub fn run(out: &mut Out) { let vs = values(); for a in &vs { for b in &vs { let e = o_eq(a, b); out.check((a == b) == e, "eq_131", "eq", || format!("{} == {} expected {}", show(a), show(b), e)); out.check((a != b) == !e, "eq_131", "ne", || format!("{} != {} expected {}", show(a), show(b), !e)); } } }
