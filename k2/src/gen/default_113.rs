// default_113
#![allow(dead_code, unused_variables, unused_mut, unused_imports, non_shorthand_field_patterns, clippy::all)]
use crate::support::*;
use educe::Educe;
use core::cmp::Ordering;
#[derive(Educe)]
#[educe(Default)]
pub enum T { V1, B(char, A<0>, u8, A<3>), #[educe(Default)] Zed, C { a: bool, size: u64 } }
pub fn show(x: &T) -> String { #[allow(unused_variables)] match x { T::V1 => format!("V1()"), T::B(p0, p1, p2, p3) => format!("B({},{},{},{})", sv(p0), sv(p1), sv(p2), sv(p3)), T::Zed => format!("Zed()"), T::C { a: p0, size: p1 } => format!("C({},{})", sv(p0), sv(p1)) } }
pub fn o_default() -> T { T::Zed }
pub fn run(out: &mut Out) { let g = <T as ::core::default::Default>::default(); let e = o_default(); out.check(show(&g) == show(&e), "default_113", "default", || format!("default() = {} expected {}", show(&g), show(&e))); }
