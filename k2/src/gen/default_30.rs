// default_30
#![allow(dead_code, unused_variables, unused_mut, unused_imports, non_shorthand_field_patterns, clippy::all)]
use crate::support::*;
use educe::Educe;
use core::cmp::Ordering;
#[derive(Educe)]
#[educe(Default)]
pub enum T { Unit, A, #[educe(Default)] C(#[educe(Default(expression(Some(3))))] Option<u8>, #[educe(Default(expression(None)))] Option<u8>) }
pub fn show(x: &T) -> String { #[allow(unused_variables)] match x { T::Unit => format!("Unit()"), T::A => format!("A()"), T::C(p0, p1) => format!("C({},{})", sv(p0), sv(p1)) } }
pub fn o_default() -> T { T::C(Some(3u8), None) }
pub fn run(out: &mut Out) { let g = <T as ::core::default::Default>::default(); let e = o_default(); out.check(show(&g) == show(&e), "default_30", "default", || format!("default() = {} expected {}", show(&g), show(&e))); }
