// ord_20
#![allow(dead_code, unused_variables, unused_mut, unused_imports, non_shorthand_field_patterns, clippy::all)]
use crate::support::*;
use educe::Educe;
use core::cmp::Ordering;
#[derive(Educe)]
#[repr(i64)]
#[educe(Eq, PartialEq, PartialOrd, Ord)]
pub enum T { A {  }, None(), C = 100, Unit(#[educe(PartialOrd(rank = "3"))] A<0>, #[educe(PartialOrd(ignore))] A<1>, #[educe(PartialOrd(rank = 5))] A<2>) = -170 }

pub fn values() -> Vec<T> { vec![T::A {  }, T::None(), T::C, T::Unit(A(0), A(1), A(0)), T::Unit(A(7), A(7), A(1)), T::Unit(A(1), A(7), A(0)), T::Unit(A(7), A(0), A(0)), T::Unit(A(0), A(7), A(7)), T::Unit(A(1), A(1), A(7)), T::Unit(A(1), A(7), A(7)), T::Unit(A(7), A(7), A(7)), T::Unit(A(1), A(1), A(1))] }
pub fn show(x: &T) -> String { #[allow(unused_variables)] match x { T::A {  } => format!("A()"), T::None() => format!("None()"), T::C => format!("C()"), T::Unit(p0, p1, p2) => format!("Unit({},{},{})", sv(p0), sv(p1), sv(p2)) } }
pub fn o_disc(x: &T) -> i128 { match x { T::A {  } => 0, T::None() => 1, T::C => 100, T::Unit(_, _, _) => -170 } }
pub fn o_cmp(a: &T, b: &T) -> Ordering { match (a, b) { (T::A {  }, T::A {  }) => {  Ordering::Equal }, (T::None(), T::None()) => {  Ordering::Equal }, (T::C, T::C) => {  Ordering::Equal }, (T::Unit(a0, a1, a2), T::Unit(b0, b1, b2)) => { let c = ::core::cmp::Ord::cmp(a0, b0); if c != Ordering::Equal { return c; } let c = ::core::cmp::Ord::cmp(a2, b2); if c != Ordering::Equal { return c; } Ordering::Equal }, _ => o_disc(a).cmp(&o_disc(b)) } }
pub fn run(out: &mut Out) { let vs = values(); for (i, a) in vs.iter().enumerate() { for (j, b) in vs.iter().enumerate() { let e = o_cmp(a, b); let g = ::core::cmp::Ord::cmp(a, b); out.check(g == e, "ord_20", "cmp", || format!("cmp({}, {}) = {:?} expected {:?}", show(a), show(b), g, e)); let g2 = ::core::cmp::PartialOrd::partial_cmp(a, b); out.check(g2 == Some(e), "ord_20", "partial_is_some_cmp", || format!("partial_cmp({}, {}) = {:?} expected Some({:?})", show(a), show(b), g2, e)); } } }
