// default_92
#![allow(dead_code, unused_variables, unused_mut, unused_imports, non_shorthand_field_patterns, clippy::all)]
use crate::support::*;
use educe::Educe;
use core::cmp::Ordering;
#[derive(Educe)]
#[educe(Default(expr = T { f: false, c: false, builder: '\0' }))]
pub struct T { f: bool, c: bool, builder: char }
pub fn show(x: &T) -> String { #[allow(unused_variables)] match x { T { f: p0, c: p1, builder: p2 } => format!("T({},{},{})", sv(p0), sv(p1), sv(p2)) } }
pub fn o_default() -> T { T { f: false, c: false, builder: '\0' } }
pub fn run(out: &mut Out) { let g = <T as ::core::default::Default>::default(); let e = o_default(); out.check(show(&g) == show(&e), "default_92", "default", || format!("default() = {} expected {}", show(&g), show(&e))); }
