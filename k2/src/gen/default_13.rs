// default_13
#![allow(dead_code, unused_variables, unused_mut, unused_imports, non_shorthand_field_patterns, clippy::all)]
use crate::support::*;
use educe::Educe;
use core::cmp::Ordering;
#[derive(Educe)]
#[educe(Default)]
pub enum T { #[educe(Default)] C { #[educe(Default(expr = 9u16))] c: u16 }, A }
pub fn show(x: &T) -> String { #[allow(unused_variables)] match x { T::C { c: p0 } => format!("C({})", sv(p0)), T::A => format!("A()") } }
pub fn o_default() -> T { T::C { c: 9u16 } }
pub fn run(out: &mut Out) { let g = <T as ::core::default::Default>::default(); let e = o_default(); out.check(show(&g) == show(&e), "default_13", "default", || format!("default() = {} expected {}", show(&g), show(&e))); }
