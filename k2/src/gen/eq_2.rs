// eq_2
#![allow(dead_code, unused_variables, unused_mut, unused_imports, non_shorthand_field_patterns, clippy::all)]
use crate::support::*;
use educe::Educe;
use core::cmp::Ordering;
#[derive(Educe)]
#[educe(PartialEq)]
pub enum T { None, Zed { #[educe(PartialEq = false)] b: A<0>, #[educe(PartialEq(method("m_eq")))] c: A<1>, size: A<2> } }
pub fn values() -> Vec<T> { vec![T::None, T::Zed { b: A(1), c: A(1), size: A(1) }, T::Zed { b: A(0), c: A(7), size: A(1) }, T::Zed { b: A(0), c: A(0), size: A(1) }, T::Zed { b: A(1), c: A(0), size: A(0) }, T::Zed { b: A(0), c: A(0), size: A(0) }, T::Zed { b: A(1), c: A(7), size: A(0) }, T::Zed { b: A(7), c: A(7), size: A(0) }, T::Zed { b: A(1), c: A(0), size: A(1) }, T::Zed { b: A(0), c: A(0), size: A(7) }, T::Zed { b: A(0), c: A(7), size: A(0) }, T::Zed { b: A(7), c: A(0), size: A(1) }, T::Zed { b: A(0), c: A(1), size: A(7) }, T::Zed { b: A(7), c: A(0), size: A(0) }, T::Zed { b: A(7), c: A(1), size: A(0) }, T::Zed { b: A(0), c: A(1), size: A(1) }, T::Zed { b: A(1), c: A(1), size: A(0) }, T::Zed { b: A(7), c: A(1), size: A(1) }, T::Zed { b: A(7), c: A(7), size: A(1) }, T::Zed { b: A(0), c: A(1), size: A(0) }, T::Zed { b: A(1), c: A(7), size: A(7) }, T::Zed { b: A(1), c: A(7), size: A(1) }, T::Zed { b: A(1), c: A(1), size: A(7) }, T::Zed { b: A(1), c: A(0), size: A(7) }, T::Zed { b: A(0), c: A(7), size: A(7) }] }
pub fn show(x: &T) -> String { #[allow(unused_variables)] match x { T::None => format!("None()"), T::Zed { b: p0, c: p1, size: p2 } => format!("Zed({},{},{})", sv(p0), sv(p1), sv(p2)) } }
pub fn o_eq(a: &T, b: &T) -> bool { match (a, b) { (T::None, T::None) => true, (T::Zed { b: a0, c: a1, size: a2 }, T::Zed { b: b0, c: b1, size: b2 }) => m_eq(a1, b1) && (a2 == b2), _ => false } }
pub fn run(out: &mut Out) { let vs = values(); for a in &vs { for b in &vs { let e = o_eq(a, b); out.check((a == b) == e, "eq_2", "eq", || format!("{} == {} expected {}", show(a), show(b), e)); out.check((a != b) == !e, "eq_2", "ne", || format!("{} != {} expected {}", show(a), show(b), !e)); } } }
