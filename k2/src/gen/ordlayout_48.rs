// ordlayout_48
#![allow(dead_code, unused_variables, unused_mut, unused_imports, non_shorthand_field_patterns, clippy::all)]
use crate::support::*;
use educe::Educe;
use core::cmp::Ordering;
#[derive(Educe)]
#[repr(isize)]
#[educe(Eq, Ord, PartialEq)]
pub enum T { Zed { state: u8, other: (), #[educe(Ord(rank = "1"))] a: ::core::num::NonZeroU8 } = 1, Some = 100 }
impl PartialOrd for T { fn partial_cmp(&self, o: &Self) -> Option<Ordering> { Some(::core::cmp::Ord::cmp(self, o)) } }
pub fn values() -> Vec<T> { vec![T::Zed { state: 0, other: (), a: ::core::num::NonZeroU8::new(1).unwrap() }, T::Zed { state: 0, other: (), a: ::core::num::NonZeroU8::new(200).unwrap() }, T::Zed { state: 100, other: (), a: ::core::num::NonZeroU8::new(1).unwrap() }, T::Zed { state: 100, other: (), a: ::core::num::NonZeroU8::new(200).unwrap() }, T::Zed { state: 200, other: (), a: ::core::num::NonZeroU8::new(1).unwrap() }, T::Zed { state: 200, other: (), a: ::core::num::NonZeroU8::new(200).unwrap() }, T::Some] }
pub fn show(x: &T) -> String { #[allow(unused_variables)] match x { T::Zed { state: p0, other: p1, a: p2 } => format!("Zed({},{},{})", sv(p0), sv(p1), sv(p2)), T::Some => format!("Some()") } }
pub fn o_disc(x: &T) -> i128 { match x { T::Zed { state: _, other: _, a: _ } => 1, T::Some => 100 } }
pub fn o_cmp(a: &T, b: &T) -> Ordering { match (a, b) { (T::Zed { state: a0, other: a1, a: a2 }, T::Zed { state: b0, other: b1, a: b2 }) => { let c = ::core::cmp::Ord::cmp(a0, b0); if c != Ordering::Equal { return c; } let c = ::core::cmp::Ord::cmp(a1, b1); if c != Ordering::Equal { return c; } let c = ::core::cmp::Ord::cmp(a2, b2); if c != Ordering::Equal { return c; } Ordering::Equal }, (T::Some, T::Some) => {  Ordering::Equal }, _ => o_disc(a).cmp(&o_disc(b)) } }
#[repr(C)] pub struct Wrap { pub pre: u8, pub x: T, pub post: [u8; 9] }
pub fn wrap(i: usize, n: u8) -> Wrap { Wrap { pre: n, x: values().swap_remove(i), post: [n; 9] } }
pub fn run(out: &mut Out) { let vs = values(); for (i, a) in vs.iter().enumerate() { for (j, b) in vs.iter().enumerate() { let e = o_cmp(a, b); let g = ::core::cmp::Ord::cmp(a, b); out.check(g == e, "ordlayout_48", "cmp", || format!("cmp({}, {}) = {:?} expected {:?}", show(a), show(b), g, e)); for n in [0u8, 1, 0x7f, 0x80, 0xff] { let wa = wrap(i, n); let wb = wrap(j, !n); let g = ::core::cmp::Ord::cmp(&wa.x, &wb.x); let e = o_cmp(a, b); out.check(g == e, "ordlayout_48", "cmp_neighbours", || format!("cmp({}, {}) with neighbour bytes {} = {:?} expected {:?}", show(a), show(b), n, g, e)); } } } }
