// debug_81
#![allow(dead_code, unused_variables, unused_mut, unused_imports, non_shorthand_field_patterns, clippy::all)]
use crate::support::*;
use educe::Educe;
use core::cmp::Ordering;
#[derive(Educe)]
#[educe(Debug(name("Zz")))]
pub enum T { #[educe(Debug(name = "Ren"))] B, Some { _0: A<0>, #[educe(Debug(method = m_fmt, rename = k1))] arg: A<1> }, #[educe(Debug(name = ""))] C }
pub fn values() -> Vec<T> { vec![T::B, T::Some { _0: A(1), arg: A(1) }, T::Some { _0: A(0), arg: A(7) }, T::Some { _0: A(1), arg: A(0) }, T::Some { _0: A(0), arg: A(0) }, T::Some { _0: A(1), arg: A(7) }, T::Some { _0: A(7), arg: A(1) }, T::Some { _0: A(7), arg: A(0) }, T::Some { _0: A(7), arg: A(7) }, T::C] }
pub fn show(x: &T) -> String { #[allow(unused_variables)] match x { T::B => format!("B()"), T::Some { _0: p0, arg: p1 } => format!("Some({},{})", sv(p0), sv(p1)), T::C => format!("C()") } }
pub fn o_fmt(x: &T, f: &mut ::core::fmt::Formatter<'_>) -> ::core::fmt::Result { match x { T::B => f.write_str("Zz::Ren"), T::Some { _0: p0, arg: p1 } => f.debug_struct("Zz::Some").field("_0", p0).field("k1", &Wm(p1)).finish(), T::C => f.write_str("Zz") } }

pub fn run(out: &mut Out) { let vs = values(); for a in &vs { let g = format!("{:?}", a); let e = format!("{:?}", Fm(|f: &mut ::core::fmt::Formatter<'_>| o_fmt(a, f))); out.check(g == e, "debug_81", "debug", || format!("{{:?}} of {} = {:?} expected {:?}", show(a), g, e)); let g = format!("{:#?}", a); let e = format!("{:#?}", Fm(|f: &mut ::core::fmt::Formatter<'_>| o_fmt(a, f))); out.check(g == e, "debug_81", "debug_alt", || format!("{{:#?}} of {} = {:?} expected {:?}", show(a), g, e)); let g = format!("{:8?}", a); let e = format!("{:8?}", Fm(|f: &mut ::core::fmt::Formatter<'_>| o_fmt(a, f))); out.check(g == e, "debug_81", "debug_width", || format!("{{:8?}} of {} = {:?} expected {:?}", show(a), g, e)); }  }
