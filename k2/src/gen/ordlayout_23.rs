// ordlayout_23
#![allow(dead_code, unused_variables, unused_mut, unused_imports, non_shorthand_field_patterns, clippy::all)]
use crate::support::*;
use educe::Educe;
use core::cmp::Ordering;
#[derive(Educe)]
#[repr(u8)]
#[educe(Ord, PartialEq, PartialOrd, Eq)]
pub enum T { Zed, Some { #[educe(Ord(rank(8)))] f: char, a: i64, #[educe(Ord(rank = 1))] y: bool } }

pub fn values() -> Vec<T> { vec![T::Zed, T::Some { f: 'a', a: -5, y: false }, T::Some { f: 'a', a: -5, y: true }, T::Some { f: 'a', a: 0, y: false }, T::Some { f: 'a', a: 0, y: true }, T::Some { f: 'a', a: 9, y: false }, T::Some { f: 'a', a: 9, y: true }, T::Some { f: 'z', a: -5, y: false }, T::Some { f: 'z', a: -5, y: true }, T::Some { f: 'z', a: 0, y: false }, T::Some { f: 'z', a: 0, y: true }, T::Some { f: 'z', a: 9, y: false }, T::Some { f: 'z', a: 9, y: true }] }
pub fn show(x: &T) -> String { #[allow(unused_variables)] match x { T::Zed => format!("Zed()"), T::Some { f: p0, a: p1, y: p2 } => format!("Some({},{},{})", sv(p0), sv(p1), sv(p2)) } }
pub fn o_disc(x: &T) -> i128 { match x { T::Zed => 0, T::Some { f: _, a: _, y: _ } => 1 } }
pub fn o_cmp(a: &T, b: &T) -> Ordering { match (a, b) { (T::Zed, T::Zed) => {  Ordering::Equal }, (T::Some { f: a0, a: a1, y: a2 }, T::Some { f: b0, a: b1, y: b2 }) => { let c = ::core::cmp::Ord::cmp(a1, b1); if c != Ordering::Equal { return c; } let c = ::core::cmp::Ord::cmp(a2, b2); if c != Ordering::Equal { return c; } let c = ::core::cmp::Ord::cmp(a0, b0); if c != Ordering::Equal { return c; } Ordering::Equal }, _ => o_disc(a).cmp(&o_disc(b)) } }
#[repr(C)] pub struct Wrap { pub pre: u8, pub x: T, pub post: [u8; 9] }
pub fn wrap(i: usize, n: u8) -> Wrap { Wrap { pre: n, x: values().swap_remove(i), post: [n; 9] } }
pub fn run(out: &mut Out) { let vs = values(); for (i, a) in vs.iter().enumerate() { for (j, b) in vs.iter().enumerate() { let e = o_cmp(a, b); let g = ::core::cmp::Ord::cmp(a, b); out.check(g == e, "ordlayout_23", "cmp", || format!("cmp({}, {}) = {:?} expected {:?}", show(a), show(b), g, e)); let g2 = ::core::cmp::PartialOrd::partial_cmp(a, b); out.check(g2 == Some(e), "ordlayout_23", "partial_is_some_cmp", || format!("partial_cmp({}, {}) = {:?} expected Some({:?})", show(a), show(b), g2, e)); for n in [0u8, 1, 0x7f, 0x80, 0xff] { let wa = wrap(i, n); let wb = wrap(j, !n); let g = ::core::cmp::Ord::cmp(&wa.x, &wb.x); let e = o_cmp(a, b); out.check(g == e, "ordlayout_23", "cmp_neighbours", || format!("cmp({}, {}) with neighbour bytes {} = {:?} expected {:?}", show(a), show(b), n, g, e)); } } } }
