// eq_11
#![allow(dead_code, unused_variables, unused_mut, unused_imports, non_shorthand_field_patterns, clippy::all)]
use crate::support::*;
use core::cmp::Ordering;
pub mod ty {
    #![deny(warnings)]
    #![allow(dead_code, unused_imports)]
    use crate::support::{A, B, C, Good, Bad, m_eq, m_cmp, m_pcmp, m_hash, m_fmt, m_clone, m_clone_c, m_into, g_eq, g_cmp, g_pcmp, g_hash, g_fmt};
    use educe::Educe;

    // names at the derive site that shadow everything the generated code might be tempted to write unqualified
    #[allow(non_camel_case_types)] pub struct Option; pub struct Result; pub struct Ordering; pub struct Clone; pub struct Copy;
    pub struct Default; pub struct Debug; pub struct PartialEq; pub struct Eq; pub struct PartialOrd; pub struct Ord; pub struct Hash;
    pub struct Hasher; pub struct Into; pub struct From; pub struct Deref; pub struct DerefMut; pub struct Formatter; pub struct String;
    pub struct Vec; pub struct Box; pub struct PhantomData; pub struct Sized; pub struct Send; pub struct Iterator; pub struct Self_;
    #[allow(non_snake_case)] pub fn Some() {} #[allow(non_snake_case)] pub fn None() {} #[allow(non_snake_case)] pub fn Ok() {} #[allow(non_snake_case)] pub fn Err() {}
    pub fn drop() {} pub mod core {} pub mod std {} pub mod alloc {} pub mod fmt {} pub mod cmp {} pub mod hash {} pub mod clone {} pub mod marker {}
    #[allow(unused_macros)] macro_rules! stringify { ($($t:tt)*) => { "SHADOWED" } }
    #[allow(unused_macros)] macro_rules! unreachable { ($($t:tt)*) => { () } }
    #[allow(unused_macros)] macro_rules! panic { ($($t:tt)*) => { () } }
    #[allow(unused_macros)] macro_rules! matches { ($($t:tt)*) => { true } }
    #[allow(unused_macros)] macro_rules! write { ($($t:tt)*) => { () } }
    #[allow(unused_macros)] macro_rules! format_args { ($($t:tt)*) => { () } }
    #[allow(unused_macros)] macro_rules! assert { ($($t:tt)*) => { () } }
#[derive(Educe)]
#[educe(PartialEq, Eq)]
pub struct T { pub r#type: A<0>, #[educe(PartialEq(ignore = true))] pub self_data: A<1>, #[educe(PartialEq(method = m_eq))] pub other: A<2>, #[educe(Eq(ignore = true))] pub state: A<3> }
}
pub use ty::T;
pub fn values() -> Vec<T> { vec![T { r#type: A(7), self_data: A(7), other: A(0), state: A(7) }, T { r#type: A(0), self_data: A(1), other: A(7), state: A(1) }, T { r#type: A(7), self_data: A(0), other: A(1), state: A(7) }, T { r#type: A(0), self_data: A(1), other: A(0), state: A(7) }, T { r#type: A(0), self_data: A(7), other: A(0), state: A(1) }, T { r#type: A(1), self_data: A(0), other: A(1), state: A(7) }, T { r#type: A(7), self_data: A(7), other: A(1), state: A(0) }, T { r#type: A(1), self_data: A(7), other: A(7), state: A(7) }, T { r#type: A(0), self_data: A(0), other: A(0), state: A(0) }, T { r#type: A(7), self_data: A(7), other: A(7), state: A(7) }, T { r#type: A(1), self_data: A(1), other: A(1), state: A(1) }, T { r#type: A(0), self_data: A(0), other: A(0), state: A(7) }, T { r#type: A(1), self_data: A(1), other: A(7), state: A(1) }, T { r#type: A(1), self_data: A(1), other: A(7), state: A(7) }, T { r#type: A(7), self_data: A(7), other: A(1), state: A(1) }, T { r#type: A(7), self_data: A(1), other: A(7), state: A(0) }, T { r#type: A(0), self_data: A(7), other: A(0), state: A(7) }, T { r#type: A(7), self_data: A(0), other: A(1), state: A(0) }, T { r#type: A(7), self_data: A(0), other: A(1), state: A(1) }, T { r#type: A(1), self_data: A(0), other: A(7), state: A(1) }, T { r#type: A(1), self_data: A(1), other: A(7), state: A(0) }, T { r#type: A(1), self_data: A(1), other: A(0), state: A(7) }, T { r#type: A(7), self_data: A(1), other: A(1), state: A(1) }, T { r#type: A(7), self_data: A(7), other: A(1), state: A(7) }, T { r#type: A(7), self_data: A(7), other: A(7), state: A(0) }, T { r#type: A(7), self_data: A(1), other: A(0), state: A(0) }, T { r#type: A(0), self_data: A(0), other: A(7), state: A(1) }, T { r#type: A(7), self_data: A(0), other: A(7), state: A(0) }, T { r#type: A(1), self_data: A(1), other: A(0), state: A(1) }, T { r#type: A(1), self_data: A(1), other: A(1), state: A(7) }, T { r#type: A(0), self_data: A(1), other: A(1), state: A(1) }, T { r#type: A(0), self_data: A(7), other: A(1), state: A(7) }, T { r#type: A(0), self_data: A(0), other: A(7), state: A(0) }, T { r#type: A(1), self_data: A(0), other: A(0), state: A(7) }, T { r#type: A(1), self_data: A(7), other: A(7), state: A(0) }, T { r#type: A(7), self_data: A(0), other: A(0), state: A(7) }, T { r#type: A(7), self_data: A(7), other: A(0), state: A(0) }, T { r#type: A(1), self_data: A(0), other: A(0), state: A(0) }, T { r#type: A(7), self_data: A(1), other: A(1), state: A(0) }, T { r#type: A(1), self_data: A(7), other: A(7), state: A(1) }, T { r#type: A(0), self_data: A(0), other: A(1), state: A(7) }, T { r#type: A(1), self_data: A(0), other: A(1), state: A(0) }, T { r#type: A(7), self_data: A(0), other: A(0), state: A(0) }, T { r#type: A(1), self_data: A(0), other: A(7), state: A(7) }, T { r#type: A(1), self_data: A(0), other: A(1), state: A(1) }, T { r#type: A(0), self_data: A(1), other: A(7), state: A(7) }, T { r#type: A(7), self_data: A(7), other: A(7), state: A(1) }, T { r#type: A(1), self_data: A(0), other: A(7), state: A(0) }] }
pub fn show(x: &T) -> String { #[allow(unused_variables)] match x { T { r#type: p0, self_data: p1, other: p2, state: p3 } => format!("T({},{},{},{})", sv(p0), sv(p1), sv(p2), sv(p3)) } }
pub fn o_eq(a: &T, b: &T) -> bool { match (a, b) { (T { r#type: a0, self_data: a1, other: a2, state: a3 }, T { r#type: b0, self_data: b1, other: b2, state: b3 }) => (a0 == b0) && m_eq(a2, b2) } }
pub fn run(out: &mut Out) { let vs = values(); for a in &vs { for b in &vs { let e = o_eq(a, b); out.check((a == b) == e, "eq_11", "eq", || format!("{} == {} expected {}", show(a), show(b), e)); out.check((a != b) == !e, "eq_11", "ne", || format!("{} != {} expected {}", show(a), show(b), !e)); } } }
