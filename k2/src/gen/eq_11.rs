// eq_11
#![allow(dead_code, unused_variables, unused_mut, unused_imports, non_shorthand_field_patterns, clippy::all)]
use crate::support::*;
use educe::Educe;
use core::cmp::Ordering;
#[derive(Educe)]
#[educe(PartialEq)]
pub enum T { None { #[educe(PartialEq(ignore))] _0: A<0>, b: A<1> }, C(), V1(A<0>, #[educe(PartialEq = false)] A<0>) }
pub fn values() -> Vec<T> { vec![T::None { _0: A(0), b: A(0) }, T::None { _0: A(0), b: A(1) }, T::None { _0: A(0), b: A(7) }, T::None { _0: A(1), b: A(0) }, T::None { _0: A(1), b: A(1) }, T::None { _0: A(1), b: A(7) }, T::None { _0: A(7), b: A(0) }, T::None { _0: A(7), b: A(1) }, T::None { _0: A(7), b: A(7) }, T::C(), T::V1(A(0), A(0)), T::V1(A(0), A(1)), T::V1(A(0), A(7)), T::V1(A(1), A(0)), T::V1(A(1), A(1)), T::V1(A(1), A(7)), T::V1(A(7), A(0)), T::V1(A(7), A(1)), T::V1(A(7), A(7))] }
pub fn show(x: &T) -> String { #[allow(unused_variables)] match x { T::None { _0: p0, b: p1 } => format!("None({},{})", sv(p0), sv(p1)), T::C() => format!("C()"), T::V1(p0, p1) => format!("V1({},{})", sv(p0), sv(p1)) } }
pub fn o_eq(a: &T, b: &T) -> bool { match (a, b) { (T::None { _0: a0, b: a1 }, T::None { _0: b0, b: b1 }) => (a1 == b1), (T::C(), T::C()) => true, (T::V1(a0, a1), T::V1(b0, b1)) => (a0 == b0), _ => false } }
pub fn run(out: &mut Out) { let vs = values(); for a in &vs { for b in &vs { let e = o_eq(a, b); out.check((a == b) == e, "eq_11", "eq", || format!("{} == {} expected {}", show(a), show(b), e)); out.check((a != b) == !e, "eq_11", "ne", || format!("{} != {} expected {}", show(a), show(b), !e)); } } }
