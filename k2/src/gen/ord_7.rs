// ord_7
#![allow(dead_code, unused_variables, unused_mut, unused_imports, non_shorthand_field_patterns, clippy::all)]
use crate::support::*;
use educe::Educe;
use core::cmp::Ordering;
#[derive(Educe)]
#[repr(i64)]
#[educe(Eq, PartialOrd, Ord, PartialEq)]
pub enum T { B, None, Zed(#[educe(Ord(rank("4"), method = m_cmp))] A<0>) = 100 }

pub fn values() -> Vec<T> { vec![T::B, T::None, T::Zed(A(0)), T::Zed(A(1)), T::Zed(A(7))] }
pub fn show(x: &T) -> String { #[allow(unused_variables)] match x { T::B => format!("B()"), T::None => format!("None()"), T::Zed(p0) => format!("Zed({})", sv(p0)) } }
pub fn o_disc(x: &T) -> i128 { match x { T::B => 0, T::None => 1, T::Zed(_) => 100 } }
pub fn o_cmp(a: &T, b: &T) -> Ordering { match (a, b) { (T::B, T::B) => {  Ordering::Equal }, (T::None, T::None) => {  Ordering::Equal }, (T::Zed(a0), T::Zed(b0)) => { let c = m_cmp(a0, b0); if c != Ordering::Equal { return c; } Ordering::Equal }, _ => o_disc(a).cmp(&o_disc(b)) } }
pub fn run(out: &mut Out) { let vs = values(); for (i, a) in vs.iter().enumerate() { for (j, b) in vs.iter().enumerate() { let e = o_cmp(a, b); let g = ::core::cmp::Ord::cmp(a, b); out.check(g == e, "ord_7", "cmp", || format!("cmp({}, {}) = {:?} expected {:?}", show(a), show(b), g, e)); let g2 = ::core::cmp::PartialOrd::partial_cmp(a, b); out.check(g2 == Some(e), "ord_7", "partial_is_some_cmp", || format!("partial_cmp({}, {}) = {:?} expected Some({:?})", show(a), show(b), g2, e)); } } }
