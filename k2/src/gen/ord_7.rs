// ord_7
#![allow(dead_code, unused_variables, unused_mut, unused_imports, non_shorthand_field_patterns, clippy::all)]
use crate::support::*;
use educe::Educe;
use core::cmp::Ordering;
#[derive(Educe)]
#[educe(Eq, PartialEq, Ord)]
pub enum T { C { #[educe(Ord(method = "m_cmp"))] x: A<0>, #[educe(Ord(ignore(true)))] r#type: A<0> }, Unit(A<0>) }
impl PartialOrd for T { fn partial_cmp(&self, o: &Self) -> Option<Ordering> { Some(::core::cmp::Ord::cmp(self, o)) } }
pub fn values() -> Vec<T> { vec![T::C { x: A(0), r#type: A(0) }, T::C { x: A(0), r#type: A(1) }, T::C { x: A(0), r#type: A(7) }, T::C { x: A(1), r#type: A(0) }, T::C { x: A(1), r#type: A(1) }, T::C { x: A(1), r#type: A(7) }, T::C { x: A(7), r#type: A(0) }, T::C { x: A(7), r#type: A(1) }, T::C { x: A(7), r#type: A(7) }, T::Unit(A(0)), T::Unit(A(1)), T::Unit(A(7))] }
pub fn show(x: &T) -> String { #[allow(unused_variables)] match x { T::C { x: p0, r#type: p1 } => format!("C({},{})", sv(p0), sv(p1)), T::Unit(p0) => format!("Unit({})", sv(p0)) } }
pub fn o_disc(x: &T) -> i128 { match x { T::C { x: _, r#type: _ } => 0, T::Unit(_) => 1 } }
pub fn o_cmp(a: &T, b: &T) -> Ordering { match (a, b) { (T::C { x: a0, r#type: a1 }, T::C { x: b0, r#type: b1 }) => { let c = m_cmp(a0, b0); if c != Ordering::Equal { return c; } Ordering::Equal }, (T::Unit(a0), T::Unit(b0)) => { let c = ::core::cmp::Ord::cmp(a0, b0); if c != Ordering::Equal { return c; } Ordering::Equal }, _ => o_disc(a).cmp(&o_disc(b)) } }
pub fn run(out: &mut Out) { let vs = values(); for (i, a) in vs.iter().enumerate() { for (j, b) in vs.iter().enumerate() { let e = o_cmp(a, b); let g = ::core::cmp::Ord::cmp(a, b); out.check(g == e, "ord_7", "cmp", || format!("cmp({}, {}) = {:?} expected {:?}", show(a), show(b), g, e)); } } }
