// into_62
#![allow(dead_code, unused_variables, unused_mut, unused_imports, non_shorthand_field_patterns, clippy::all)]
use crate::support::*;
use educe::Educe;
use core::cmp::Ordering;
#[derive(Educe)]
#[educe(Into(B<2>), Into(B<0>))]
pub enum T { A(#[educe(Into(B<2>))] A<2>, #[educe(Into(B<0>))] A<2>, A<2>), None(A<0>) }
pub fn values() -> Vec<T> { vec![T::A(A(1), A(0), A(7)), T::A(A(0), A(0), A(0)), T::A(A(7), A(1), A(0)), T::A(A(1), A(1), A(1)), T::A(A(7), A(0), A(0)), T::A(A(7), A(7), A(7)), T::None(A(0)), T::None(A(1)), T::None(A(7))] }
pub fn show(x: &T) -> String { #[allow(unused_variables)] match x { T::A(p0, p1, p2) => format!("A({},{},{})", sv(p0), sv(p1), sv(p2)), T::None(p0) => format!("None({})", sv(p0)) } }
pub fn o_into_0(x: T) -> B<2> { match x { T::A(p0, _, _) => ::core::convert::Into::into(p0), T::None(p0) => ::core::convert::Into::into(p0) } }
pub fn o_into_1(x: T) -> B<0> { match x { T::A(_, p1, _) => ::core::convert::Into::into(p1), T::None(p0) => ::core::convert::Into::into(p0) } }
pub fn run(out: &mut Out) { let n = values().len(); for i in 0..n { let a = values().swap_remove(i); let shown = show(&a); let g: B<2> = ::core::convert::Into::into(a); let e = o_into_0(values().swap_remove(i)); out.check(sv(&g) == sv(&e), "into_62", "into", || format!("Into::<B<2>>::into({}) = {} expected {}", shown, sv(&g), sv(&e))); } for i in 0..n { let a = values().swap_remove(i); let shown = show(&a); let g: B<0> = ::core::convert::Into::into(a); let e = o_into_1(values().swap_remove(i)); out.check(sv(&g) == sv(&e), "into_62", "into", || format!("Into::<B<0>>::into({}) = {} expected {}", shown, sv(&g), sv(&e))); } }
