// hash_127
#![allow(dead_code, unused_variables, unused_mut, unused_imports, non_shorthand_field_patterns, clippy::all)]
use crate::support::*;
use educe::Educe;
use core::cmp::Ordering;
#[derive(Educe)]
#[educe(Hash)]
pub enum T { B(#[educe(Hash(method = "m_hash"))] A<0>, #[educe(Hash(ignore(true)))] A<0>, #[educe(Hash(method("m_hash")))] A<2>), A(#[educe(Hash = false)] A<0>, #[educe(Hash(ignore))] A<1>), Some { other: A<0>, r#type: A<0> } }
pub fn values() -> Vec<T> { vec![T::B(A(7), A(0), A(1)), T::B(A(0), A(0), A(0)), T::B(A(7), A(1), A(1)), T::B(A(7), A(1), A(7)), T::B(A(1), A(7), A(0)), T::B(A(1), A(0), A(0)), T::B(A(0), A(1), A(7)), T::B(A(0), A(0), A(7)), T::B(A(7), A(7), A(1)), T::B(A(7), A(7), A(0)), T::B(A(1), A(1), A(1)), T::B(A(0), A(7), A(0)), T::B(A(1), A(7), A(1)), T::B(A(0), A(0), A(1)), T::B(A(1), A(1), A(0)), T::B(A(1), A(7), A(7)), T::A(A(0), A(0)), T::A(A(0), A(1)), T::A(A(0), A(7)), T::A(A(1), A(0)), T::A(A(1), A(1)), T::A(A(1), A(7)), T::A(A(7), A(0)), T::A(A(7), A(1)), T::A(A(7), A(7)), T::Some { other: A(0), r#type: A(0) }, T::Some { other: A(0), r#type: A(1) }, T::Some { other: A(0), r#type: A(7) }, T::Some { other: A(1), r#type: A(0) }, T::Some { other: A(1), r#type: A(1) }, T::Some { other: A(1), r#type: A(7) }, T::Some { other: A(7), r#type: A(0) }, T::Some { other: A(7), r#type: A(1) }, T::Some { other: A(7), r#type: A(7) }] }
pub fn show(x: &T) -> String { #[allow(unused_variables)] match x { T::B(p0, p1, p2) => format!("B({},{},{})", sv(p0), sv(p1), sv(p2)), T::A(p0, p1) => format!("A({},{})", sv(p0), sv(p1)), T::Some { other: p0, r#type: p1 } => format!("Some({},{})", sv(p0), sv(p1)) } }
pub fn o_hash(x: &T) -> Vec<String> { let mut e = Rec::default(); match x { T::B(p0, p1, p2) => { ::core::hash::Hash::hash(&0usize, &mut e); m_hash(p0, &mut e); m_hash(p2, &mut e); }, T::A(p0, p1) => { ::core::hash::Hash::hash(&1usize, &mut e); }, T::Some { other: p0, r#type: p1 } => { ::core::hash::Hash::hash(&2usize, &mut e); ::core::hash::Hash::hash(p0, &mut e); ::core::hash::Hash::hash(p1, &mut e); } } e.0 }
pub fn run(out: &mut Out) { let vs = values(); for a in &vs { let mut g = Rec::default(); ::core::hash::Hash::hash(a, &mut g); let e = o_hash(a); out.check(g.0 == e, "hash_127", "hash", || format!("hash({}) fed {:?} expected {:?}", show(a), g.0, e)); } }
