// into_58
#![allow(dead_code, unused_variables, unused_mut, unused_imports, non_shorthand_field_patterns, clippy::all)]
use crate::support::*;
use educe::Educe;
use core::cmp::Ordering;
#[derive(Educe)]
#[educe(Into(A<0>))]
pub enum T { A(A<0>, A<0>, #[educe(Into(A<0>))] A<0>), C { f: A<1>, arg: A<3>, b: A<0> } }
pub fn values() -> Vec<T> { vec![T::A(A(7), A(0), A(1)), T::A(A(1), A(1), A(7)), T::A(A(0), A(1), A(0)), T::A(A(1), A(0), A(0)), T::A(A(7), A(1), A(7)), T::A(A(0), A(7), A(7)), T::C { f: A(7), arg: A(7), b: A(0) }, T::C { f: A(0), arg: A(7), b: A(0) }, T::C { f: A(0), arg: A(0), b: A(7) }, T::C { f: A(0), arg: A(1), b: A(0) }, T::C { f: A(7), arg: A(0), b: A(0) }, T::C { f: A(1), arg: A(7), b: A(7) }] }
pub fn show(x: &T) -> String { #[allow(unused_variables)] match x { T::A(p0, p1, p2) => format!("A({},{},{})", sv(p0), sv(p1), sv(p2)), T::C { f: p0, arg: p1, b: p2 } => format!("C({},{},{})", sv(p0), sv(p1), sv(p2)) } }
pub fn o_into_0(x: T) -> A<0> { match x { T::A(_, _, p2) => p2, T::C { f: _, arg: _, b: p2 } => p2 } }
pub fn run(out: &mut Out) { let n = values().len(); for i in 0..n { let a = values().swap_remove(i); let shown = show(&a); let g: A<0> = ::core::convert::Into::into(a); let e = o_into_0(values().swap_remove(i)); out.check(sv(&g) == sv(&e), "into_58", "into", || format!("Into::<A<0>>::into({}) = {} expected {}", shown, sv(&g), sv(&e))); } }
