// ord_24
#![allow(dead_code, unused_variables, unused_mut, unused_imports, non_shorthand_field_patterns, clippy::all)]
use crate::support::*;
use educe::Educe;
use core::cmp::Ordering;
#[derive(Educe)]
#[educe(Ord, PartialEq, Eq, PartialOrd)]
pub struct T { other: A<0>, x: A<0>, #[educe(PartialOrd(rank = "+0", method = "m_cmp"))] r#type: A<0> }

pub fn values() -> Vec<T> { vec![T { other: A(0), x: A(0), r#type: A(0) }, T { other: A(0), x: A(0), r#type: A(1) }, T { other: A(0), x: A(0), r#type: A(7) }, T { other: A(0), x: A(1), r#type: A(0) }, T { other: A(0), x: A(1), r#type: A(1) }, T { other: A(0), x: A(1), r#type: A(7) }, T { other: A(0), x: A(7), r#type: A(0) }, T { other: A(0), x: A(7), r#type: A(1) }, T { other: A(0), x: A(7), r#type: A(7) }, T { other: A(1), x: A(0), r#type: A(0) }, T { other: A(1), x: A(0), r#type: A(1) }, T { other: A(1), x: A(0), r#type: A(7) }, T { other: A(1), x: A(1), r#type: A(0) }, T { other: A(1), x: A(1), r#type: A(1) }, T { other: A(1), x: A(1), r#type: A(7) }, T { other: A(1), x: A(7), r#type: A(0) }, T { other: A(1), x: A(7), r#type: A(1) }, T { other: A(1), x: A(7), r#type: A(7) }, T { other: A(7), x: A(0), r#type: A(0) }, T { other: A(7), x: A(0), r#type: A(1) }, T { other: A(7), x: A(0), r#type: A(7) }, T { other: A(7), x: A(1), r#type: A(0) }, T { other: A(7), x: A(1), r#type: A(1) }, T { other: A(7), x: A(1), r#type: A(7) }, T { other: A(7), x: A(7), r#type: A(0) }, T { other: A(7), x: A(7), r#type: A(1) }, T { other: A(7), x: A(7), r#type: A(7) }] }
pub fn show(x: &T) -> String { #[allow(unused_variables)] match x { T { other: p0, x: p1, r#type: p2 } => format!("T({},{},{})", sv(p0), sv(p1), sv(p2)) } }
pub fn o_disc(x: &T) -> i128 { match x { T { other: _, x: _, r#type: _ } => 0 } }
pub fn o_cmp(a: &T, b: &T) -> Ordering { match (a, b) { (T { other: a0, x: a1, r#type: a2 }, T { other: b0, x: b1, r#type: b2 }) => { let c = ::core::cmp::Ord::cmp(a0, b0); if c != Ordering::Equal { return c; } let c = ::core::cmp::Ord::cmp(a1, b1); if c != Ordering::Equal { return c; } let c = m_cmp(a2, b2); if c != Ordering::Equal { return c; } Ordering::Equal } } }
pub fn run(out: &mut Out) { let vs = values(); for (i, a) in vs.iter().enumerate() { for (j, b) in vs.iter().enumerate() { let e = o_cmp(a, b); let g = ::core::cmp::Ord::cmp(a, b); out.check(g == e, "ord_24", "cmp", || format!("cmp({}, {}) = {:?} expected {:?}", show(a), show(b), g, e)); let g2 = ::core::cmp::PartialOrd::partial_cmp(a, b); out.check(g2 == Some(e), "ord_24", "partial_is_some_cmp", || format!("partial_cmp({}, {}) = {:?} expected Some({:?})", show(a), show(b), g2, e)); } } }
