// ord_24
#![allow(dead_code, unused_variables, unused_mut, unused_imports, non_shorthand_field_patterns, clippy::all)]
use crate::support::*;
use educe::Educe;
use core::cmp::Ordering;
#[derive(Educe)]
#[repr(i64)]
#[educe(Ord, PartialEq, PartialOrd, Eq)]
pub enum T { None = 2, Unit }

pub fn values() -> Vec<T> { vec![T::None, T::Unit] }
pub fn show(x: &T) -> String { #[allow(unused_variables)] match x { T::None => format!("None()"), T::Unit => format!("Unit()") } }
pub fn o_disc(x: &T) -> i128 { match x { T::None => 2, T::Unit => 3 } }
pub fn o_cmp(a: &T, b: &T) -> Ordering { match (a, b) { (T::None, T::None) => {  Ordering::Equal }, (T::Unit, T::Unit) => {  Ordering::Equal }, _ => o_disc(a).cmp(&o_disc(b)) } }
pub fn run(out: &mut Out) { let vs = values(); for (i, a) in vs.iter().enumerate() { for (j, b) in vs.iter().enumerate() { let e = o_cmp(a, b); let g = ::core::cmp::Ord::cmp(a, b); out.check(g == e, "ord_24", "cmp", || format!("cmp({}, {}) = {:?} expected {:?}", show(a), show(b), g, e)); let g2 = ::core::cmp::PartialOrd::partial_cmp(a, b); out.check(g2 == Some(e), "ord_24", "partial_is_some_cmp", || format!("partial_cmp({}, {}) = {:?} expected Some({:?})", show(a), show(b), g2, e)); } } }
