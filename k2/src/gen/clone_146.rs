// clone_146
#![allow(dead_code, unused_variables, unused_mut, unused_imports, non_shorthand_field_patterns, clippy::all)]
use crate::support::*;
use educe::Educe;
use core::cmp::Ordering;
#[derive(Educe)]
#[educe(Clone)]
pub enum T { Zed { #[educe(Clone(method("m_clone")))] c: A<0>, source: A<1> }, A { arg: A<0>, #[educe(Clone(method = m_clone))] other: A<0> } }
pub fn values() -> Vec<T> { vec![T::Zed { c: A(0), source: A(0) }, T::Zed { c: A(0), source: A(1) }, T::Zed { c: A(0), source: A(7) }, T::Zed { c: A(1), source: A(0) }, T::Zed { c: A(1), source: A(1) }, T::Zed { c: A(1), source: A(7) }, T::Zed { c: A(7), source: A(0) }, T::Zed { c: A(7), source: A(1) }, T::Zed { c: A(7), source: A(7) }, T::A { arg: A(0), other: A(0) }, T::A { arg: A(0), other: A(1) }, T::A { arg: A(0), other: A(7) }, T::A { arg: A(1), other: A(0) }, T::A { arg: A(1), other: A(1) }, T::A { arg: A(1), other: A(7) }, T::A { arg: A(7), other: A(0) }, T::A { arg: A(7), other: A(1) }, T::A { arg: A(7), other: A(7) }] }
pub fn show(x: &T) -> String { #[allow(unused_variables)] match x { T::Zed { c: p0, source: p1 } => format!("Zed({},{})", sv(p0), sv(p1)), T::A { arg: p0, other: p1 } => format!("A({},{})", sv(p0), sv(p1)) } }
pub fn o_clone(x: &T) -> T { match x { T::Zed { c: p0, source: p1 } => T::Zed { c: A(p0.0.wrapping_add(50)), source: A(p1.0) }, T::A { arg: p0, other: p1 } => T::A { arg: A(p0.0), other: A(p1.0.wrapping_add(50)) } } }
pub fn o_log(x: &T) -> Vec<String> { match x { T::Zed { c: p0, source: p1 } => vec![format!("m_clone A{} {}", p0.k(), p0.0), format!("clone A{} {}", p1.k(), p1.0)], T::A { arg: p0, other: p1 } => vec![format!("clone A{} {}", p0.k(), p0.0), format!("m_clone A{} {}", p1.k(), p1.0)] } }
pub fn run(out: &mut Out) { let vs = values(); for a in &vs { let _ = take_log(); let g = ::core::clone::Clone::clone(a); let l = take_log(); let e = o_clone(a); out.check(show(&g) == show(&e), "clone_146", "clone", || format!("clone({}) = {} expected {}", show(a), show(&g), show(&e))); let el = o_log(a); out.check(l == el, "clone_146", "clone_calls", || format!("clone({}) called {:?} expected {:?}", show(a), l, el)); } let n = vs.len(); for i in 0..n { for j in 0..n { let mut x = values().swap_remove(i); let shown = show(&x); ::core::clone::Clone::clone_from(&mut x, &vs[j]); let e = o_clone(&vs[j]); out.check(show(&x) == show(&e), "clone_146", "clone_from", || format!("{}.clone_from({}) = {} expected {}", shown, show(&vs[j]), show(&x), show(&e))); } } }
