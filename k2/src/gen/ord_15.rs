// ord_15
#![allow(dead_code, unused_variables, unused_mut, unused_imports, non_shorthand_field_patterns, clippy::all)]
use crate::support::*;
use educe::Educe;
use core::cmp::Ordering;
#[derive(Educe)]
#[educe(PartialEq, PartialOrd, Eq)]
pub struct T { #[educe(PartialOrd = false)] f: A<0>, #[educe(PartialOrd(method = m_pcmp))] builder: A<0>, #[educe(PartialOrd(method = m_pcmp))] arg: A<2> }

pub fn values() -> Vec<T> { vec![T { f: A(0), builder: A(0), arg: A(0) }, T { f: A(0), builder: A(0), arg: A(1) }, T { f: A(0), builder: A(0), arg: A(7) }, T { f: A(0), builder: A(1), arg: A(0) }, T { f: A(0), builder: A(1), arg: A(1) }, T { f: A(0), builder: A(1), arg: A(7) }, T { f: A(0), builder: A(7), arg: A(0) }, T { f: A(0), builder: A(7), arg: A(1) }, T { f: A(0), builder: A(7), arg: A(7) }, T { f: A(1), builder: A(0), arg: A(0) }, T { f: A(1), builder: A(0), arg: A(1) }, T { f: A(1), builder: A(0), arg: A(7) }, T { f: A(1), builder: A(1), arg: A(0) }, T { f: A(1), builder: A(1), arg: A(1) }, T { f: A(1), builder: A(1), arg: A(7) }, T { f: A(1), builder: A(7), arg: A(0) }, T { f: A(1), builder: A(7), arg: A(1) }, T { f: A(1), builder: A(7), arg: A(7) }, T { f: A(7), builder: A(0), arg: A(0) }, T { f: A(7), builder: A(0), arg: A(1) }, T { f: A(7), builder: A(0), arg: A(7) }, T { f: A(7), builder: A(1), arg: A(0) }, T { f: A(7), builder: A(1), arg: A(1) }, T { f: A(7), builder: A(1), arg: A(7) }, T { f: A(7), builder: A(7), arg: A(0) }, T { f: A(7), builder: A(7), arg: A(1) }, T { f: A(7), builder: A(7), arg: A(7) }] }
pub fn show(x: &T) -> String { #[allow(unused_variables)] match x { T { f: p0, builder: p1, arg: p2 } => format!("T({},{},{})", sv(p0), sv(p1), sv(p2)) } }
pub fn o_disc(x: &T) -> i128 { match x { T { f: _, builder: _, arg: _ } => 0 } }
pub fn o_pcmp(a: &T, b: &T) -> Option<Ordering> { match (a, b) { (T { f: a0, builder: a1, arg: a2 }, T { f: b0, builder: b1, arg: b2 }) => { match m_pcmp(a1, b1) { Some(Ordering::Equal) => (), x => return x } match m_pcmp(a2, b2) { Some(Ordering::Equal) => (), x => return x } Some(Ordering::Equal) } } }
pub fn run(out: &mut Out) { let vs = values(); for (i, a) in vs.iter().enumerate() { for (j, b) in vs.iter().enumerate() { let e = o_pcmp(a, b); let g = ::core::cmp::PartialOrd::partial_cmp(a, b); out.check(g == e, "ord_15", "partial_cmp", || format!("partial_cmp({}, {}) = {:?} expected {:?}", show(a), show(b), g, e)); } } }
