// ord_15
#![allow(dead_code, unused_variables, unused_mut, unused_imports, non_shorthand_field_patterns, clippy::all)]
use crate::support::*;
use core::cmp::Ordering;
pub mod ty {
    #![deny(warnings)]
    #![allow(dead_code, unused_imports, non_snake_case)]
    use crate::support::{A, B, C, Good, Bad, m_eq, m_cmp, m_pcmp, m_hash, m_fmt, m_clone, m_clone_c, m_into, g_eq, g_cmp, g_pcmp, g_hash, g_fmt};
    use educe::Educe;
#[derive(Educe)]
#[educe(PartialOrd, Eq, PartialEq)]
pub struct T { #[educe(PartialOrd(ignore))] pub y: A<0>, #[educe(PartialOrd(rank = -4))] pub b: A<0>, #[educe(PartialOrd(rank("1"), method(m_pcmp)))] pub builder: A<2> }
}
pub use ty::T;

pub fn values() -> Vec<T> { vec![T { y: A(0), b: A(0), builder: A(0) }, T { y: A(0), b: A(0), builder: A(1) }, T { y: A(0), b: A(0), builder: A(7) }, T { y: A(0), b: A(1), builder: A(0) }, T { y: A(0), b: A(1), builder: A(1) }, T { y: A(0), b: A(1), builder: A(7) }, T { y: A(0), b: A(7), builder: A(0) }, T { y: A(0), b: A(7), builder: A(1) }, T { y: A(0), b: A(7), builder: A(7) }, T { y: A(1), b: A(0), builder: A(0) }, T { y: A(1), b: A(0), builder: A(1) }, T { y: A(1), b: A(0), builder: A(7) }, T { y: A(1), b: A(1), builder: A(0) }, T { y: A(1), b: A(1), builder: A(1) }, T { y: A(1), b: A(1), builder: A(7) }, T { y: A(1), b: A(7), builder: A(0) }, T { y: A(1), b: A(7), builder: A(1) }, T { y: A(1), b: A(7), builder: A(7) }, T { y: A(7), b: A(0), builder: A(0) }, T { y: A(7), b: A(0), builder: A(1) }, T { y: A(7), b: A(0), builder: A(7) }, T { y: A(7), b: A(1), builder: A(0) }, T { y: A(7), b: A(1), builder: A(1) }, T { y: A(7), b: A(1), builder: A(7) }, T { y: A(7), b: A(7), builder: A(0) }, T { y: A(7), b: A(7), builder: A(1) }, T { y: A(7), b: A(7), builder: A(7) }] }
pub fn show(x: &T) -> String { #[allow(unused_variables)] match x { T { y: p0, b: p1, builder: p2 } => format!("T({},{},{})", sv(p0), sv(p1), sv(p2)) } }
pub fn o_disc(x: &T) -> i128 { match x { T { y: _, b: _, builder: _ } => 0 } }
pub fn o_pcmp(a: &T, b: &T) -> Option<Ordering> { match (a, b) { (T { y: a0, b: a1, builder: a2 }, T { y: b0, b: b1, builder: b2 }) => { match ::core::cmp::PartialOrd::partial_cmp(a1, b1) { Some(Ordering::Equal) => (), x => return x } match m_pcmp(a2, b2) { Some(Ordering::Equal) => (), x => return x } Some(Ordering::Equal) } } }
pub fn run(out: &mut Out) { let vs = values(); for (i, a) in vs.iter().enumerate() { for (j, b) in vs.iter().enumerate() { let e = o_pcmp(a, b); let g = ::core::cmp::PartialOrd::partial_cmp(a, b); out.check(g == e, "ord_15", "partial_cmp", || format!("partial_cmp({}, {}) = {:?} expected {:?}", show(a), show(b), g, e)); } } }
