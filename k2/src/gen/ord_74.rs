// ord_74
#![allow(dead_code, unused_variables, unused_mut, unused_imports, non_shorthand_field_patterns, clippy::all)]
use crate::support::*;
use core::cmp::Ordering;
pub mod ty {
    #![deny(warnings)]
    #![allow(dead_code, unused_imports, non_snake_case)]
    use crate::support::{A, B, C, Good, Bad, m_eq, m_cmp, m_pcmp, m_hash, m_fmt, m_clone, m_clone_c, m_into, g_eq, g_cmp, g_pcmp, g_hash, g_fmt};
    use educe::Educe;
#[derive(Educe)]
#[repr(u64)]
#[educe(Debug)]
#[educe(Ord, PartialEq, Eq)]
pub enum T { C, A = 9223372036854775807, None = 9223372036854775815, Unit(#[educe(Ord(ignore = true))] A<0>, #[educe(Ord(method = "m_cmp"), Debug(ignore = false))] A<0>) = 5 }
}
pub use ty::T;
impl PartialOrd for T { fn partial_cmp(&self, o: &Self) -> Option<Ordering> { Some(::core::cmp::Ord::cmp(self, o)) } }
pub fn values() -> Vec<T> { vec![T::C, T::A, T::None, T::Unit(A(0), A(0)), T::Unit(A(0), A(1)), T::Unit(A(0), A(7)), T::Unit(A(1), A(0)), T::Unit(A(1), A(1)), T::Unit(A(1), A(7)), T::Unit(A(7), A(0)), T::Unit(A(7), A(1)), T::Unit(A(7), A(7))] }
pub fn show(x: &T) -> String { #[allow(unused_variables)] match x { T::C => format!("C()"), T::A => format!("A()"), T::None => format!("None()"), T::Unit(p0, p1) => format!("Unit({},{})", sv(p0), sv(p1)) } }
pub fn o_disc(x: &T) -> i128 { match x { T::C => 0, T::A => 9223372036854775807, T::None => 9223372036854775815, T::Unit(_, _) => 5 } }
pub fn o_cmp(a: &T, b: &T) -> Ordering { match (a, b) { (T::C, T::C) => {  Ordering::Equal }, (T::A, T::A) => {  Ordering::Equal }, (T::None, T::None) => {  Ordering::Equal }, (T::Unit(a0, a1), T::Unit(b0, b1)) => { let c = m_cmp(a1, b1); if c != Ordering::Equal { return c; } Ordering::Equal }, _ => o_disc(a).cmp(&o_disc(b)) } }
pub fn run(out: &mut Out) { let vs = values(); for (i, a) in vs.iter().enumerate() { for (j, b) in vs.iter().enumerate() { let e = o_cmp(a, b); let g = ::core::cmp::Ord::cmp(a, b); out.check(g == e, "ord_74", "cmp", || format!("cmp({}, {}) = {:?} expected {:?}", show(a), show(b), g, e)); } } }
