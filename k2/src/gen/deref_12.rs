// deref_12
#![allow(dead_code, unused_variables, unused_mut, unused_imports, non_shorthand_field_patterns, clippy::all)]
use crate::support::*;
use educe::Educe;
use core::cmp::Ordering;
#[derive(Educe)]
#[educe(Deref)]
pub enum T { None { data: A<1>, #[educe(Deref)] arg: A<1> } }
pub fn values() -> Vec<T> { vec![T::None { data: A(0), arg: A(0) }, T::None { data: A(0), arg: A(1) }, T::None { data: A(0), arg: A(7) }, T::None { data: A(1), arg: A(0) }, T::None { data: A(1), arg: A(1) }, T::None { data: A(1), arg: A(7) }, T::None { data: A(7), arg: A(0) }, T::None { data: A(7), arg: A(1) }, T::None { data: A(7), arg: A(7) }] }
pub fn show(x: &T) -> String { #[allow(unused_variables)] match x { T::None { data: p0, arg: p1 } => format!("None({},{})", sv(p0), sv(p1)) } }
pub fn o_deref(x: &T) -> *const A<1> { match x { T::None { data: _, arg: p1 } => p1 as *const A<1> } }
pub fn run(out: &mut Out) { let vs = values(); for a in &vs { let g = ::core::ops::Deref::deref(a) as *const A<1>; let e = o_deref(a); out.check(g == e, "deref_12", "deref", || format!("&*{} has another address than the designated field", show(a))); } }
