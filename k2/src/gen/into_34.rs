// into_34
#![allow(dead_code, unused_variables, unused_mut, unused_imports, non_shorthand_field_patterns, clippy::all)]
use crate::support::*;
use educe::Educe;
use core::cmp::Ordering;
#[derive(Educe)]
#[educe(Into(B<1>))]
#[educe(Into(A<0>))]
pub enum T { C { builder: A<0> }, A(A<2>, #[educe(Into(B<1>))] A<3>, A<0>), Some(A<0>, A<2>, #[educe(Into(B<1>, method(m_into)))] A<2>) }
pub fn values() -> Vec<T> { vec![T::C { builder: A(0) }, T::C { builder: A(1) }, T::C { builder: A(7) }, T::A(A(7), A(0), A(7)), T::A(A(1), A(1), A(7)), T::A(A(1), A(7), A(7)), T::A(A(7), A(0), A(1)), T::Some(A(7), A(0), A(1)), T::Some(A(7), A(7), A(0)), T::Some(A(0), A(0), A(1)), T::Some(A(1), A(0), A(0))] }
pub fn show(x: &T) -> String { #[allow(unused_variables)] match x { T::C { builder: p0 } => format!("C({})", sv(p0)), T::A(p0, p1, p2) => format!("A({},{},{})", sv(p0), sv(p1), sv(p2)), T::Some(p0, p1, p2) => format!("Some({},{},{})", sv(p0), sv(p1), sv(p2)) } }
pub fn o_into_0(x: T) -> B<1> { match x { T::C { builder: p0 } => ::core::convert::Into::into(p0), T::A(_, p1, _) => ::core::convert::Into::into(p1), T::Some(_, _, p2) => m_into(p2) } }
pub fn o_into_1(x: T) -> A<0> { match x { T::C { builder: p0 } => p0, T::A(_, _, p2) => p2, T::Some(p0, _, _) => p0 } }
pub fn run(out: &mut Out) { let n = values().len(); for i in 0..n { let a = values().swap_remove(i); let shown = show(&a); let g: B<1> = ::core::convert::Into::into(a); let e = o_into_0(values().swap_remove(i)); out.check(sv(&g) == sv(&e), "into_34", "into", || format!("Into::<B<1>>::into({}) = {} expected {}", shown, sv(&g), sv(&e))); } for i in 0..n { let a = values().swap_remove(i); let shown = show(&a); let g: A<0> = ::core::convert::Into::into(a); let e = o_into_1(values().swap_remove(i)); out.check(sv(&g) == sv(&e), "into_34", "into", || format!("Into::<A<0>>::into({}) = {} expected {}", shown, sv(&g), sv(&e))); } }
