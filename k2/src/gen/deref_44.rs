// deref_44
#![allow(dead_code, unused_variables, unused_mut, unused_imports, non_shorthand_field_patterns, clippy::all)]
use crate::support::*;
use educe::Educe;
use core::cmp::Ordering;
#[derive(Educe)]
#[educe(Deref)]
pub enum T { None { #[educe(Deref)] r#type: &'static A<0> }, V1(#[educe(Deref)] &'static A<0>) }
pub fn values() -> Vec<T> { vec![T::None { r#type: &A(0) }, T::None { r#type: &A(1) }, T::V1(&A(0)), T::V1(&A(1))] }
pub fn show(x: &T) -> String { #[allow(unused_variables)] match x { T::None { r#type: p0 } => format!("None({})", sv(p0)), T::V1(p0) => format!("V1({})", sv(p0)) } }
pub fn o_deref(x: &T) -> *const A<0> { match x { T::None { r#type: p0 } => *p0 as *const A<0>, T::V1(p0) => *p0 as *const A<0> } }
pub fn run(out: &mut Out) { let vs = values(); for a in &vs { let g = ::core::ops::Deref::deref(a) as *const A<0>; let e = o_deref(a); out.check(g == e, "deref_44", "deref", || format!("&*{} has another address than the designated field", show(a))); } }
