// into_26
#![allow(dead_code, unused_variables, unused_mut, unused_imports, non_shorthand_field_patterns, clippy::all)]
use crate::support::*;
use educe::Educe;
use core::cmp::Ordering;
#[derive(Educe)]
#[educe(Into(A<0>), Into(B<2>))]
pub struct T { data: A<0>, #[educe(Into(B<2>, method = "m_into"))] source: A<1> }
pub fn values() -> Vec<T> { vec![T { data: A(0), source: A(0) }, T { data: A(0), source: A(1) }, T { data: A(0), source: A(7) }, T { data: A(1), source: A(0) }, T { data: A(1), source: A(1) }, T { data: A(1), source: A(7) }, T { data: A(7), source: A(0) }, T { data: A(7), source: A(1) }, T { data: A(7), source: A(7) }] }
pub fn show(x: &T) -> String { #[allow(unused_variables)] match x { T { data: p0, source: p1 } => format!("T({},{})", sv(p0), sv(p1)) } }
pub fn o_into_0(x: T) -> A<0> { match x { T { data: p0, source: _ } => p0 } }
pub fn o_into_1(x: T) -> B<2> { match x { T { data: _, source: p1 } => m_into(p1) } }
pub fn run(out: &mut Out) { let n = values().len(); for i in 0..n { let a = values().swap_remove(i); let shown = show(&a); let g: A<0> = ::core::convert::Into::into(a); let e = o_into_0(values().swap_remove(i)); out.check(sv(&g) == sv(&e), "into_26", "into", || format!("Into::<A<0>>::into({}) = {} expected {}", shown, sv(&g), sv(&e))); } for i in 0..n { let a = values().swap_remove(i); let shown = show(&a); let g: B<2> = ::core::convert::Into::into(a); let e = o_into_1(values().swap_remove(i)); out.check(sv(&g) == sv(&e), "into_26", "into", || format!("Into::<B<2>>::into({}) = {} expected {}", shown, sv(&g), sv(&e))); } }
