// hash_72
#![allow(dead_code, unused_variables, unused_mut, unused_imports, non_shorthand_field_patterns, clippy::all)]
use crate::support::*;
use educe::Educe;
use core::cmp::Ordering;
#[derive(Educe)]
#[educe(Hash)]
pub enum T { Zed { builder: A<0>, #[educe(Hash(method(m_hash)))] data: A<1> }, C(#[educe(Hash(ignore = true))] A<0>), None { #[educe(Hash = false)] c: A<0>, #[educe(Hash(ignore = true))] f: A<1> } }
pub fn values() -> Vec<T> { vec![T::Zed { builder: A(0), data: A(0) }, T::Zed { builder: A(0), data: A(1) }, T::Zed { builder: A(0), data: A(7) }, T::Zed { builder: A(1), data: A(0) }, T::Zed { builder: A(1), data: A(1) }, T::Zed { builder: A(1), data: A(7) }, T::Zed { builder: A(7), data: A(0) }, T::Zed { builder: A(7), data: A(1) }, T::Zed { builder: A(7), data: A(7) }, T::C(A(0)), T::C(A(1)), T::C(A(7)), T::None { c: A(0), f: A(0) }, T::None { c: A(0), f: A(1) }, T::None { c: A(0), f: A(7) }, T::None { c: A(1), f: A(0) }, T::None { c: A(1), f: A(1) }, T::None { c: A(1), f: A(7) }, T::None { c: A(7), f: A(0) }, T::None { c: A(7), f: A(1) }, T::None { c: A(7), f: A(7) }] }
pub fn show(x: &T) -> String { #[allow(unused_variables)] match x { T::Zed { builder: p0, data: p1 } => format!("Zed({},{})", sv(p0), sv(p1)), T::C(p0) => format!("C({})", sv(p0)), T::None { c: p0, f: p1 } => format!("None({},{})", sv(p0), sv(p1)) } }
pub fn o_hash(x: &T) -> Vec<String> { let mut e = Rec::default(); match x { T::Zed { builder: p0, data: p1 } => { ::core::hash::Hash::hash(&0usize, &mut e); ::core::hash::Hash::hash(p0, &mut e); m_hash(p1, &mut e); }, T::C(p0) => { ::core::hash::Hash::hash(&1usize, &mut e); }, T::None { c: p0, f: p1 } => { ::core::hash::Hash::hash(&2usize, &mut e); } } e.0 }
pub fn run(out: &mut Out) { let vs = values(); for a in &vs { let mut g = Rec::default(); ::core::hash::Hash::hash(a, &mut g); let e = o_hash(a); out.check(g.0 == e, "hash_72", "hash", || format!("hash({}) fed {:?} expected {:?}", show(a), g.0, e)); } }
