// ordlayout_129
#![allow(dead_code, unused_variables, unused_mut, unused_imports, non_shorthand_field_patterns, clippy::all)]
use crate::support::*;
use educe::Educe;
use core::cmp::Ordering;
#[derive(Educe)]
#[educe(Eq, PartialEq, Ord, PartialOrd)]
pub enum T { V1 { y: bool, #[educe(Ord(rank("2")))] builder: &'static u8 }, A { state: Option<u8>, #[educe(Ord(rank(-2)))] other: &'static u8 } }

pub fn values() -> Vec<T> { vec![T::V1 { y: false, builder: &3u8 }, T::V1 { y: false, builder: &200u8 }, T::V1 { y: true, builder: &3u8 }, T::V1 { y: true, builder: &200u8 }, T::A { state: None, other: &3u8 }, T::A { state: None, other: &200u8 }, T::A { state: Some(0), other: &3u8 }, T::A { state: Some(0), other: &200u8 }, T::A { state: Some(255), other: &3u8 }, T::A { state: Some(255), other: &200u8 }] }
pub fn show(x: &T) -> String { #[allow(unused_variables)] match x { T::V1 { y: p0, builder: p1 } => format!("V1({},{})", sv(p0), sv(p1)), T::A { state: p0, other: p1 } => format!("A({},{})", sv(p0), sv(p1)) } }
pub fn o_disc(x: &T) -> i128 { match x { T::V1 { y: _, builder: _ } => 0, T::A { state: _, other: _ } => 1 } }
pub fn o_cmp(a: &T, b: &T) -> Ordering { match (a, b) { (T::V1 { y: a0, builder: a1 }, T::V1 { y: b0, builder: b1 }) => { let c = ::core::cmp::Ord::cmp(a0, b0); if c != Ordering::Equal { return c; } let c = ::core::cmp::Ord::cmp(a1, b1); if c != Ordering::Equal { return c; } Ordering::Equal }, (T::A { state: a0, other: a1 }, T::A { state: b0, other: b1 }) => { let c = ::core::cmp::Ord::cmp(a0, b0); if c != Ordering::Equal { return c; } let c = ::core::cmp::Ord::cmp(a1, b1); if c != Ordering::Equal { return c; } Ordering::Equal }, _ => o_disc(a).cmp(&o_disc(b)) } }
#[repr(C)] pub struct Wrap { pub pre: u8, pub x: T, pub post: [u8; 9] }
pub fn wrap(i: usize, n: u8) -> Wrap { Wrap { pre: n, x: values().swap_remove(i), post: [n; 9] } }
pub fn run(out: &mut Out) { let vs = values(); for (i, a) in vs.iter().enumerate() { for (j, b) in vs.iter().enumerate() { let e = o_cmp(a, b); let g = ::core::cmp::Ord::cmp(a, b); out.check(g == e, "ordlayout_129", "cmp", || format!("cmp({}, {}) = {:?} expected {:?}", show(a), show(b), g, e)); let g2 = ::core::cmp::PartialOrd::partial_cmp(a, b); out.check(g2 == Some(e), "ordlayout_129", "partial_is_some_cmp", || format!("partial_cmp({}, {}) = {:?} expected Some({:?})", show(a), show(b), g2, e)); for n in [0u8, 1, 0x7f, 0x80, 0xff] { let wa = wrap(i, n); let wb = wrap(j, !n); let g = ::core::cmp::Ord::cmp(&wa.x, &wb.x); let e = o_cmp(a, b); out.check(g == e, "ordlayout_129", "cmp_neighbours", || format!("cmp({}, {}) with neighbour bytes {} = {:?} expected {:?}", show(a), show(b), n, g, e)); } } } }
