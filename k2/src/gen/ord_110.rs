// ord_110
#![allow(dead_code, unused_variables, unused_mut, unused_imports, non_shorthand_field_patterns, clippy::all)]
use crate::support::*;
use core::cmp::Ordering;
pub mod ty {
    #![deny(warnings)]
    #![allow(dead_code, unused_imports, non_snake_case)]
    use crate::support::{A, B, C, Good, Bad, m_eq, m_cmp, m_pcmp, m_hash, m_fmt, m_clone, m_clone_c, m_into, g_eq, g_cmp, g_pcmp, g_hash, g_fmt};
    use educe::Educe;
#[derive(Educe)]
#[repr(u64)]
#[educe(Eq, PartialOrd, Ord, PartialEq)]
#[educe(Debug)]
pub enum T { Zed() = 5, C { #[educe(Ord(ignore))] #[educe(Debug(ignore = true))] a: A<0>, #[educe(Ord(ignore))] _a: A<0> } = 9223372036854775815, None { #[educe(Debug = false)] _b: A<0>, b: A<1> } = 0, Some(#[educe(Ord(rank(5)), Debug(ignore = true))] A<0>, #[educe(Ord(ignore = true))] A<0>, #[educe(Debug(ignore = false), Ord(rank("-5")))] A<2>, #[educe(Ord(method = m_cmp, rank(-4)))] A<0>) = 9223372036854775807 }
}
pub use ty::T;

pub fn values() -> Vec<T> { vec![T::Zed(), T::C { a: A(0), _a: A(0) }, T::C { a: A(0), _a: A(1) }, T::C { a: A(0), _a: A(7) }, T::C { a: A(1), _a: A(0) }, T::C { a: A(1), _a: A(1) }, T::C { a: A(1), _a: A(7) }, T::C { a: A(7), _a: A(0) }, T::C { a: A(7), _a: A(1) }, T::C { a: A(7), _a: A(7) }, T::None { _b: A(0), b: A(0) }, T::None { _b: A(0), b: A(1) }, T::None { _b: A(0), b: A(7) }, T::None { _b: A(1), b: A(0) }, T::None { _b: A(1), b: A(1) }, T::None { _b: A(1), b: A(7) }, T::None { _b: A(7), b: A(0) }, T::None { _b: A(7), b: A(1) }, T::None { _b: A(7), b: A(7) }, T::Some(A(7), A(1), A(1), A(0)), T::Some(A(0), A(7), A(1), A(0)), T::Some(A(1), A(7), A(0), A(1)), T::Some(A(1), A(1), A(7), A(1)), T::Some(A(0), A(0), A(1), A(1)), T::Some(A(7), A(1), A(7), A(1)), T::Some(A(7), A(7), A(1), A(7)), T::Some(A(0), A(0), A(7), A(1)), T::Some(A(1), A(0), A(1), A(0))] }
pub fn show(x: &T) -> String { #[allow(unused_variables)] match x { T::Zed() => format!("Zed()"), T::C { a: p0, _a: p1 } => format!("C({},{})", sv(p0), sv(p1)), T::None { _b: p0, b: p1 } => format!("None({},{})", sv(p0), sv(p1)), T::Some(p0, p1, p2, p3) => format!("Some({},{},{},{})", sv(p0), sv(p1), sv(p2), sv(p3)) } }
pub fn o_disc(x: &T) -> i128 { match x { T::Zed() => 5, T::C { a: _, _a: _ } => 9223372036854775815, T::None { _b: _, b: _ } => 0, T::Some(_, _, _, _) => 9223372036854775807 } }
pub fn o_cmp(a: &T, b: &T) -> Ordering { match (a, b) { (T::Zed(), T::Zed()) => {  Ordering::Equal }, (T::C { a: a0, _a: a1 }, T::C { a: b0, _a: b1 }) => {  Ordering::Equal }, (T::None { _b: a0, b: a1 }, T::None { _b: b0, b: b1 }) => { let c = ::core::cmp::Ord::cmp(a0, b0); if c != Ordering::Equal { return c; } let c = ::core::cmp::Ord::cmp(a1, b1); if c != Ordering::Equal { return c; } Ordering::Equal }, (T::Some(a0, a1, a2, a3), T::Some(b0, b1, b2, b3)) => { let c = ::core::cmp::Ord::cmp(a2, b2); if c != Ordering::Equal { return c; } let c = m_cmp(a3, b3); if c != Ordering::Equal { return c; } let c = ::core::cmp::Ord::cmp(a0, b0); if c != Ordering::Equal { return c; } Ordering::Equal }, _ => o_disc(a).cmp(&o_disc(b)) } }
pub fn run(out: &mut Out) { let vs = values(); for (i, a) in vs.iter().enumerate() { for (j, b) in vs.iter().enumerate() { let e = o_cmp(a, b); let g = ::core::cmp::Ord::cmp(a, b); out.check(g == e, "ord_110", "cmp", || format!("cmp({}, {}) = {:?} expected {:?}", show(a), show(b), g, e)); let g2 = ::core::cmp::PartialOrd::partial_cmp(a, b); out.check(g2 == Some(e), "ord_110", "partial_is_some_cmp", || format!("partial_cmp({}, {}) = {:?} expected Some({:?})", show(a), show(b), g2, e)); } } }
