// default_114
#![allow(dead_code, unused_variables, unused_mut, unused_imports, non_shorthand_field_patterns, clippy::all)]
use crate::support::*;
use educe::Educe;
use core::cmp::Ordering;
#[derive(Educe)]
#[educe(Default)]
pub struct T(#[educe(Default(expr = 3))] u64, #[educe(Default = "hi")] String, #[educe(Default(expr(A(9))))] A<0>);
pub fn show(x: &T) -> String { #[allow(unused_variables)] match x { T(p0, p1, p2) => format!("T({},{},{})", sv(p0), sv(p1), sv(p2)) } }
pub fn o_default() -> T { T(3u64, String::from("hi"), A(9)) }
pub fn run(out: &mut Out) { let g = <T as ::core::default::Default>::default(); let e = o_default(); out.check(show(&g) == show(&e), "default_114", "default", || format!("default() = {} expected {}", show(&g), show(&e))); }
