// debug_23
#![allow(dead_code, unused_variables, unused_mut, unused_imports, non_shorthand_field_patterns, clippy::all)]
use crate::support::*;
use educe::Educe;
use core::cmp::Ordering;
#[derive(Educe)]
#[educe(Debug)]
pub enum T { #[educe(Debug(rename = Ren))] None, #[educe(Debug(named_field = false))] B { #[educe(Debug(ignore))] _0: A<0>, b: A<1> }, Some, A(A<0>, #[educe(Debug = false)] A<1>) }
pub fn values() -> Vec<T> { vec![T::None, T::B { _0: A(0), b: A(7) }, T::B { _0: A(7), b: A(0) }, T::B { _0: A(1), b: A(0) }, T::B { _0: A(7), b: A(7) }, T::B { _0: A(0), b: A(0) }, T::B { _0: A(0), b: A(1) }, T::Some, T::A(A(1), A(0)), T::A(A(7), A(7)), T::A(A(0), A(1)), T::A(A(0), A(0)), T::A(A(0), A(7)), T::A(A(7), A(1))] }
pub fn show(x: &T) -> String { #[allow(unused_variables)] match x { T::None => format!("None()"), T::B { _0: p0, b: p1 } => format!("B({},{})", sv(p0), sv(p1)), T::Some => format!("Some()"), T::A(p0, p1) => format!("A({},{})", sv(p0), sv(p1)) } }
pub fn o_fmt(x: &T, f: &mut ::core::fmt::Formatter<'_>) -> ::core::fmt::Result { match x { T::None => f.write_str("Ren"), T::B { _0: p0, b: p1 } => f.debug_tuple("B").field(p1).finish(), T::Some => f.write_str("Some"), T::A(p0, p1) => f.debug_tuple("A").field(p0).finish() } }

pub fn run(out: &mut Out) { let vs = values(); for a in &vs { let g = format!("{:?}", a); let e = format!("{:?}", Fm(|f: &mut ::core::fmt::Formatter<'_>| o_fmt(a, f))); out.check(g == e, "debug_23", "debug", || format!("{{:?}} of {} = {:?} expected {:?}", show(a), g, e)); let g = format!("{:#?}", a); let e = format!("{:#?}", Fm(|f: &mut ::core::fmt::Formatter<'_>| o_fmt(a, f))); out.check(g == e, "debug_23", "debug_alt", || format!("{{:#?}} of {} = {:?} expected {:?}", show(a), g, e)); let g = format!("{:8?}", a); let e = format!("{:8?}", Fm(|f: &mut ::core::fmt::Formatter<'_>| o_fmt(a, f))); out.check(g == e, "debug_23", "debug_width", || format!("{{:8?}} of {} = {:?} expected {:?}", show(a), g, e)); }  }
