// ordlayout_32
#![allow(dead_code, unused_variables, unused_mut, unused_imports, non_shorthand_field_patterns, clippy::all)]
use crate::support::*;
use core::cmp::Ordering;
pub mod ty {
    #![deny(warnings)]
    #![allow(dead_code, unused_imports, non_snake_case)]
    use crate::support::{A, B, C, Good, Bad, m_eq, m_cmp, m_pcmp, m_hash, m_fmt, m_clone, m_clone_c, m_into, g_eq, g_cmp, g_pcmp, g_hash, g_fmt};
    use educe::Educe;
#[derive(Educe)]
#[educe(Eq, PartialEq, PartialOrd)]
#[educe(Debug)]
pub enum T { B { x: bool }, None, V1(#[educe(Debug(ignore = false), PartialOrd(rank("6")))] bool, #[educe(PartialOrd(rank = -1))] &'static u8), Some(#[educe(PartialOrd(ignore = false))] #[educe(Debug(ignore = false))] Option<u8>, #[educe(Debug(ignore = false))] ::core::num::NonZeroU8) }
}
pub use ty::T;

pub fn values() -> Vec<T> { vec![T::B { x: false }, T::B { x: true }, T::None, T::V1(false, &3u8), T::V1(false, &200u8), T::V1(true, &3u8), T::V1(true, &200u8), T::Some(None, ::core::num::NonZeroU8::new(1).unwrap()), T::Some(None, ::core::num::NonZeroU8::new(200).unwrap()), T::Some(Some(0), ::core::num::NonZeroU8::new(1).unwrap()), T::Some(Some(0), ::core::num::NonZeroU8::new(200).unwrap()), T::Some(Some(255), ::core::num::NonZeroU8::new(1).unwrap()), T::Some(Some(255), ::core::num::NonZeroU8::new(200).unwrap())] }
pub fn show(x: &T) -> String { #[allow(unused_variables)] match x { T::B { x: p0 } => format!("B({})", sv(p0)), T::None => format!("None()"), T::V1(p0, p1) => format!("V1({},{})", sv(p0), sv(p1)), T::Some(p0, p1) => format!("Some({},{})", sv(p0), sv(p1)) } }
pub fn o_disc(x: &T) -> i128 { match x { T::B { x: _ } => 0, T::None => 1, T::V1(_, _) => 2, T::Some(_, _) => 3 } }
pub fn o_pcmp(a: &T, b: &T) -> Option<Ordering> { match (a, b) { (T::B { x: a0 }, T::B { x: b0 }) => { match ::core::cmp::PartialOrd::partial_cmp(a0, b0) { Some(Ordering::Equal) => (), x => return x } Some(Ordering::Equal) }, (T::None, T::None) => {  Some(Ordering::Equal) }, (T::V1(a0, a1), T::V1(b0, b1)) => { match ::core::cmp::PartialOrd::partial_cmp(a1, b1) { Some(Ordering::Equal) => (), x => return x } match ::core::cmp::PartialOrd::partial_cmp(a0, b0) { Some(Ordering::Equal) => (), x => return x } Some(Ordering::Equal) }, (T::Some(a0, a1), T::Some(b0, b1)) => { match ::core::cmp::PartialOrd::partial_cmp(a0, b0) { Some(Ordering::Equal) => (), x => return x } match ::core::cmp::PartialOrd::partial_cmp(a1, b1) { Some(Ordering::Equal) => (), x => return x } Some(Ordering::Equal) }, _ => Some(o_disc(a).cmp(&o_disc(b))) } }
#[repr(C)] pub struct Wrap { pub pre: u8, pub x: T, pub post: [u8; 9] }
pub fn wrap(i: usize, n: u8) -> Wrap { Wrap { pre: n, x: values().swap_remove(i), post: [n; 9] } }
pub fn run(out: &mut Out) { let vs = values(); for (i, a) in vs.iter().enumerate() { for (j, b) in vs.iter().enumerate() { let e = o_pcmp(a, b); let g = ::core::cmp::PartialOrd::partial_cmp(a, b); out.check(g == e, "ordlayout_32", "partial_cmp", || format!("partial_cmp({}, {}) = {:?} expected {:?}", show(a), show(b), g, e)); for n in [0u8, 1, 0x7f, 0x80, 0xff] { let wa = wrap(i, n); let wb = wrap(j, !n); let g = ::core::cmp::PartialOrd::partial_cmp(&wa.x, &wb.x); let e = o_pcmp(a, b); out.check(g == e, "ordlayout_32", "cmp_neighbours", || format!("cmp({}, {}) with neighbour bytes {} = {:?} expected {:?}", show(a), show(b), n, g, e)); } } } }
