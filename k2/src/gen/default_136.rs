// default_136
#![allow(dead_code, unused_variables, unused_mut, unused_imports, non_shorthand_field_patterns, clippy::all)]
use crate::support::*;
use educe::Educe;
use core::cmp::Ordering;
#[derive(Educe)]
#[educe(Default(new))]
pub struct T { #[educe(Default(expr(A(9))))] builder: A<3>, #[educe(Default(expression = A(9)))] _0: A<0>, source: u16, a: i128 }
pub fn show(x: &T) -> String { #[allow(unused_variables)] match x { T { builder: p0, _0: p1, source: p2, a: p3 } => format!("T({},{},{},{})", sv(p0), sv(p1), sv(p2), sv(p3)) } }
pub fn o_default() -> T { T { builder: A(9), _0: A(9), source: 0u16, a: 0i128 } }
pub fn run(out: &mut Out) { let g = <T as ::core::default::Default>::default(); let e = o_default(); out.check(show(&g) == show(&e), "default_136", "default", || format!("default() = {} expected {}", show(&g), show(&e))); let g = T::new(); let e = o_default(); out.check(show(&g) == show(&e), "default_136", "new", || format!("new() = {} expected {}", show(&g), show(&e))); }
