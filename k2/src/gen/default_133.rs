// default_133
#![allow(dead_code, unused_variables, unused_mut, unused_imports, non_shorthand_field_patterns, clippy::all)]
use crate::support::*;
use educe::Educe;
use core::cmp::Ordering;
#[derive(Educe)]
#[educe(Default(new = true))]
pub enum T { A { f: &'static str, y: bool, builder: i128, source: String }, #[educe(Default)] Some { _0: String, #[educe(Default(expression = 2.5f64))] size: f64, #[educe(Default(expr = A(9)))] c: A<3> } }
pub fn show(x: &T) -> String { #[allow(unused_variables)] match x { T::A { f: p0, y: p1, builder: p2, source: p3 } => format!("A({},{},{},{})", sv(p0), sv(p1), sv(p2), sv(p3)), T::Some { _0: p0, size: p1, c: p2 } => format!("Some({},{},{})", sv(p0), sv(p1), sv(p2)) } }
pub fn o_default() -> T { T::Some { _0: String::new(), size: 2.5f64, c: A(9) } }
pub fn run(out: &mut Out) { let g = <T as ::core::default::Default>::default(); let e = o_default(); out.check(show(&g) == show(&e), "default_133", "default", || format!("default() = {} expected {}", show(&g), show(&e))); let g = T::new(); let e = o_default(); out.check(show(&g) == show(&e), "default_133", "new", || format!("new() = {} expected {}", show(&g), show(&e))); }
