// into_65
#![allow(dead_code, unused_variables, unused_mut, unused_imports, non_shorthand_field_patterns, clippy::all)]
use crate::support::*;
use educe::Educe;
use core::cmp::Ordering;
#[derive(Educe)]
#[educe(Into(B<1>), Into(B<2>))]
pub enum T { B(#[educe(Into(B<1>, method(m_into)))] #[educe(Into(B<2>, method = m_into))] A<2>, A<1>), Some(#[educe(Into(B<1>))] A<0>, #[educe(Into(B<2>))] A<0>, A<0>), Unit { #[educe(Into(B<1>))] a: A<2>, #[educe(Into(B<2>, method(m_into)))] y: A<3>, f: A<0> } }
pub fn values() -> Vec<T> { vec![T::B(A(1), A(7)), T::B(A(7), A(1)), T::B(A(0), A(7)), T::B(A(1), A(0)), T::Some(A(1), A(1), A(1)), T::Some(A(0), A(1), A(7)), T::Some(A(0), A(0), A(7)), T::Some(A(7), A(1), A(0)), T::Unit { a: A(1), y: A(1), f: A(0) }, T::Unit { a: A(1), y: A(7), f: A(0) }, T::Unit { a: A(0), y: A(1), f: A(7) }, T::Unit { a: A(0), y: A(1), f: A(1) }] }
pub fn show(x: &T) -> String { #[allow(unused_variables)] match x { T::B(p0, p1) => format!("B({},{})", sv(p0), sv(p1)), T::Some(p0, p1, p2) => format!("Some({},{},{})", sv(p0), sv(p1), sv(p2)), T::Unit { a: p0, y: p1, f: p2 } => format!("Unit({},{},{})", sv(p0), sv(p1), sv(p2)) } }
pub fn o_into_0(x: T) -> B<1> { match x { T::B(p0, _) => m_into(p0), T::Some(p0, _, _) => ::core::convert::Into::into(p0), T::Unit { a: p0, y: _, f: _ } => ::core::convert::Into::into(p0) } }
pub fn o_into_1(x: T) -> B<2> { match x { T::B(p0, _) => m_into(p0), T::Some(_, p1, _) => ::core::convert::Into::into(p1), T::Unit { a: _, y: p1, f: _ } => m_into(p1) } }
pub fn run(out: &mut Out) { let n = values().len(); for i in 0..n { let a = values().swap_remove(i); let shown = show(&a); let g: B<1> = ::core::convert::Into::into(a); let e = o_into_0(values().swap_remove(i)); out.check(sv(&g) == sv(&e), "into_65", "into", || format!("Into::<B<1>>::into({}) = {} expected {}", shown, sv(&g), sv(&e))); } for i in 0..n { let a = values().swap_remove(i); let shown = show(&a); let g: B<2> = ::core::convert::Into::into(a); let e = o_into_1(values().swap_remove(i)); out.check(sv(&g) == sv(&e), "into_65", "into", || format!("Into::<B<2>>::into({}) = {} expected {}", shown, sv(&g), sv(&e))); } }
