// eq_28
#![allow(dead_code, unused_variables, unused_mut, unused_imports, non_shorthand_field_patterns, clippy::all)]
use crate::support::*;
use educe::Educe;
use core::cmp::Ordering;
#[derive(Educe)]
#[educe(PartialEq)]
pub struct T(A<0>);
pub fn values() -> Vec<T> { vec![T(A(0)), T(A(1)), T(A(7))] }
pub fn show(x: &T) -> String { #[allow(unused_variables)] match x { T(p0) => format!("T({})", sv(p0)) } }
pub fn o_eq(a: &T, b: &T) -> bool { match (a, b) { (T(a0), T(b0)) => (a0 == b0) } }
pub fn run(out: &mut Out) { let vs = values(); for a in &vs { for b in &vs { let e = o_eq(a, b); out.check((a == b) == e, "eq_28", "eq", || format!("{} == {} expected {}", show(a), show(b), e)); out.check((a != b) == !e, "eq_28", "ne", || format!("{} != {} expected {}", show(a), show(b), !e)); } } }
