// default_86
#![allow(dead_code, unused_variables, unused_mut, unused_imports, non_shorthand_field_patterns, clippy::all)]
use crate::support::*;
use educe::Educe;
use core::cmp::Ordering;
#[derive(Educe)]
#[educe(Default)]
pub enum T { #[educe(Default)] A { #[educe(Default = 77)] size: i128, #[educe(Default(expression(3)))] source: u64 }, Unit { y: i64 } }
pub fn show(x: &T) -> String { #[allow(unused_variables)] match x { T::A { size: p0, source: p1 } => format!("A({},{})", sv(p0), sv(p1)), T::Unit { y: p0 } => format!("Unit({})", sv(p0)) } }
pub fn o_default() -> T { T::A { size: 77i128, source: 3u64 } }
pub fn run(out: &mut Out) { let g = <T as ::core::default::Default>::default(); let e = o_default(); out.check(show(&g) == show(&e), "default_86", "default", || format!("default() = {} expected {}", show(&g), show(&e))); }
