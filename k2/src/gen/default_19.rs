// default_19
#![allow(dead_code, unused_variables, unused_mut, unused_imports, non_shorthand_field_patterns, clippy::all)]
use crate::support::*;
use educe::Educe;
use core::cmp::Ordering;
#[derive(Educe)]
#[educe(Default)]
pub enum T { A(u16) }
pub fn show(x: &T) -> String { #[allow(unused_variables)] match x { T::A(p0) => format!("A({})", sv(p0)) } }
pub fn o_default() -> T { T::A(0u16) }
pub fn run(out: &mut Out) { let g = <T as ::core::default::Default>::default(); let e = o_default(); out.check(show(&g) == show(&e), "default_19", "default", || format!("default() = {} expected {}", show(&g), show(&e))); }
