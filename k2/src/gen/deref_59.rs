// deref_59
#![allow(dead_code, unused_variables, unused_mut, unused_imports, non_shorthand_field_patterns, clippy::all)]
use crate::support::*;
use educe::Educe;
use core::cmp::Ordering;
#[derive(Educe)]
#[educe(DerefMut, Deref)]
pub enum T { C { builder: A<0> }, Unit { other: A<2>, #[educe(Deref)] data: A<0>, state: A<2>, #[educe(DerefMut)] y: A<0> } }
pub fn values() -> Vec<T> { vec![T::C { builder: A(0) }, T::C { builder: A(1) }, T::C { builder: A(7) }, T::Unit { other: A(7), data: A(7), state: A(1), y: A(1) }, T::Unit { other: A(7), data: A(1), state: A(0), y: A(0) }, T::Unit { other: A(7), data: A(7), state: A(1), y: A(7) }, T::Unit { other: A(1), data: A(0), state: A(0), y: A(0) }, T::Unit { other: A(1), data: A(1), state: A(7), y: A(1) }, T::Unit { other: A(7), data: A(1), state: A(7), y: A(7) }, T::Unit { other: A(0), data: A(7), state: A(1), y: A(1) }, T::Unit { other: A(1), data: A(0), state: A(1), y: A(7) }] }
pub fn show(x: &T) -> String { #[allow(unused_variables)] match x { T::C { builder: p0 } => format!("C({})", sv(p0)), T::Unit { other: p0, data: p1, state: p2, y: p3 } => format!("Unit({},{},{},{})", sv(p0), sv(p1), sv(p2), sv(p3)) } }
pub fn o_deref(x: &T) -> *const A<0> { match x { T::C { builder: p0 } => p0 as *const A<0>, T::Unit { other: _, data: p1, state: _, y: _ } => p1 as *const A<0> } }
pub fn o_deref_mut(x: &mut T) -> *mut A<0> { match x { T::C { builder: p0 } => p0 as *mut A<0>, T::Unit { other: _, data: _, state: _, y: p3 } => p3 as *mut A<0> } }
pub fn o_write(x: &mut T) { match x { T::C { builder: p0 } => { *p0 = A(99); }, T::Unit { other: _, data: _, state: _, y: p3 } => { *p3 = A(99); } } }
pub fn run(out: &mut Out) { let vs = values(); for a in &vs { let g = ::core::ops::Deref::deref(a) as *const A<0>; let e = o_deref(a); out.check(g == e, "deref_59", "deref", || format!("&*{} has another address than the designated field", show(a))); } let n = vs.len(); for i in 0..n { let mut x = values().swap_remove(i); let e = o_deref_mut(&mut x); let g = ::core::ops::DerefMut::deref_mut(&mut x) as *mut A<0>; out.check(g == e, "deref_59", "deref_mut", || format!("&mut *{} has another address than the designated field", show(&x))); let mut y = values().swap_remove(i); o_write(&mut y); *::core::ops::DerefMut::deref_mut(&mut x) = A(99); out.check(show(&x) == show(&y), "deref_59", "deref_mut_write", || format!("after a write through &mut *x: {} expected {}", show(&x), show(&y))); } }
