// ord_98
#![allow(dead_code, unused_variables, unused_mut, unused_imports, non_shorthand_field_patterns, clippy::all)]
use crate::support::*;
use educe::Educe;
use core::cmp::Ordering;
#[derive(Educe)]
#[repr(i32)]
#[educe(Ord, PartialEq, Eq)]
pub enum T { V1, A(#[educe(Ord(method = "m_cmp"))] A<0>, #[educe(Ord(rank = "5"))] A<1>) }
impl PartialOrd for T { fn partial_cmp(&self, o: &Self) -> Option<Ordering> { Some(::core::cmp::Ord::cmp(self, o)) } }
pub fn values() -> Vec<T> { vec![T::V1, T::A(A(0), A(0)), T::A(A(0), A(1)), T::A(A(0), A(7)), T::A(A(1), A(0)), T::A(A(1), A(1)), T::A(A(1), A(7)), T::A(A(7), A(0)), T::A(A(7), A(1)), T::A(A(7), A(7))] }
pub fn show(x: &T) -> String { #[allow(unused_variables)] match x { T::V1 => format!("V1()"), T::A(p0, p1) => format!("A({},{})", sv(p0), sv(p1)) } }
pub fn o_disc(x: &T) -> i128 { match x { T::V1 => 0, T::A(_, _) => 1 } }
pub fn o_cmp(a: &T, b: &T) -> Ordering { match (a, b) { (T::V1, T::V1) => {  Ordering::Equal }, (T::A(a0, a1), T::A(b0, b1)) => { let c = m_cmp(a0, b0); if c != Ordering::Equal { return c; } let c = ::core::cmp::Ord::cmp(a1, b1); if c != Ordering::Equal { return c; } Ordering::Equal }, _ => o_disc(a).cmp(&o_disc(b)) } }
pub fn run(out: &mut Out) { let vs = values(); for (i, a) in vs.iter().enumerate() { for (j, b) in vs.iter().enumerate() { let e = o_cmp(a, b); let g = ::core::cmp::Ord::cmp(a, b); out.check(g == e, "ord_98", "cmp", || format!("cmp({}, {}) = {:?} expected {:?}", show(a), show(b), g, e)); } } }
