// deref_128
#![allow(dead_code, unused_variables, unused_mut, unused_imports, non_shorthand_field_patterns, clippy::all)]
use crate::support::*;
use educe::Educe;
use core::cmp::Ordering;
#[derive(Educe)]
#[educe(Deref)]
pub struct T { #[educe(Deref)] f: A<1>, r#type: A<1>, c: A<1> }
pub fn values() -> Vec<T> { vec![T { f: A(0), r#type: A(1), c: A(0) }, T { f: A(1), r#type: A(7), c: A(7) }, T { f: A(1), r#type: A(1), c: A(0) }, T { f: A(0), r#type: A(0), c: A(1) }, T { f: A(7), r#type: A(1), c: A(1) }, T { f: A(1), r#type: A(0), c: A(1) }, T { f: A(7), r#type: A(1), c: A(7) }, T { f: A(7), r#type: A(7), c: A(0) }, T { f: A(7), r#type: A(0), c: A(0) }, T { f: A(1), r#type: A(7), c: A(0) }, T { f: A(1), r#type: A(1), c: A(1) }, T { f: A(0), r#type: A(1), c: A(7) }, T { f: A(0), r#type: A(7), c: A(1) }, T { f: A(1), r#type: A(1), c: A(7) }, T { f: A(0), r#type: A(0), c: A(0) }, T { f: A(7), r#type: A(0), c: A(1) }] }
pub fn show(x: &T) -> String { #[allow(unused_variables)] match x { T { f: p0, r#type: p1, c: p2 } => format!("T({},{},{})", sv(p0), sv(p1), sv(p2)) } }
pub fn o_deref(x: &T) -> *const A<1> { match x { T { f: p0, r#type: _, c: _ } => p0 as *const A<1> } }
pub fn run(out: &mut Out) { let vs = values(); for a in &vs { let g = ::core::ops::Deref::deref(a) as *const A<1>; let e = o_deref(a); out.check(g == e, "deref_128", "deref", || format!("&*{} has another address than the designated field", show(a))); } }
