// ordlayout_101
#![allow(dead_code, unused_variables, unused_mut, unused_imports, non_shorthand_field_patterns, clippy::all)]
use crate::support::*;
use core::cmp::Ordering;
pub mod ty {
    #![deny(warnings)]
    #![allow(dead_code, unused_imports, non_snake_case)]
    use crate::support::{A, B, C, Good, Bad, m_eq, m_cmp, m_pcmp, m_hash, m_fmt, m_clone, m_clone_c, m_into, g_eq, g_cmp, g_pcmp, g_hash, g_fmt};
    use educe::Educe;
#[derive(Educe)]
#[repr(i128)]
#[educe(PartialEq, Eq, PartialOrd)]
pub enum T { C = 3, Unit, Zed(&'static u8) }
}
pub use ty::T;

pub fn values() -> Vec<T> { vec![T::C, T::Unit, T::Zed(&3u8), T::Zed(&200u8)] }
pub fn show(x: &T) -> String { #[allow(unused_variables)] match x { T::C => format!("C()"), T::Unit => format!("Unit()"), T::Zed(p0) => format!("Zed({})", sv(p0)) } }
pub fn o_disc(x: &T) -> i128 { match x { T::C => 3, T::Unit => 4, T::Zed(_) => 5 } }
pub fn o_pcmp(a: &T, b: &T) -> Option<Ordering> { match (a, b) { (T::C, T::C) => {  Some(Ordering::Equal) }, (T::Unit, T::Unit) => {  Some(Ordering::Equal) }, (T::Zed(a0), T::Zed(b0)) => { match ::core::cmp::PartialOrd::partial_cmp(a0, b0) { Some(Ordering::Equal) => (), x => return x } Some(Ordering::Equal) }, _ => Some(o_disc(a).cmp(&o_disc(b))) } }
#[repr(C)] pub struct Wrap { pub pre: u8, pub x: T, pub post: [u8; 9] }
pub fn wrap(i: usize, n: u8) -> Wrap { Wrap { pre: n, x: values().swap_remove(i), post: [n; 9] } }
pub fn run(out: &mut Out) { let vs = values(); for (i, a) in vs.iter().enumerate() { for (j, b) in vs.iter().enumerate() { let e = o_pcmp(a, b); let g = ::core::cmp::PartialOrd::partial_cmp(a, b); out.check(g == e, "ordlayout_101", "partial_cmp", || format!("partial_cmp({}, {}) = {:?} expected {:?}", show(a), show(b), g, e)); for n in [0u8, 1, 0x7f, 0x80, 0xff] { let wa = wrap(i, n); let wb = wrap(j, !n); let g = ::core::cmp::PartialOrd::partial_cmp(&wa.x, &wb.x); let e = o_pcmp(a, b); out.check(g == e, "ordlayout_101", "cmp_neighbours", || format!("cmp({}, {}) with neighbour bytes {} = {:?} expected {:?}", show(a), show(b), n, g, e)); } } } }
