// debug_56
#![allow(dead_code, unused_variables, unused_mut, unused_imports, non_shorthand_field_patterns, clippy::all)]
use crate::support::*;
use educe::Educe;
use core::cmp::Ordering;
#[derive(Educe)]
#[educe(Debug(rename = Zz))]
pub enum T { Unit, #[educe(Debug(rename = Ren, named_field = false))] Zed { _0: A<0>, a: A<1>, c: A<0>, arg: A<0> } }
pub fn values() -> Vec<T> { vec![T::Unit, T::Zed { _0: A(1), a: A(0), c: A(1), arg: A(0) }, T::Zed { _0: A(0), a: A(1), c: A(0), arg: A(7) }, T::Zed { _0: A(0), a: A(1), c: A(7), arg: A(7) }, T::Zed { _0: A(1), a: A(1), c: A(0), arg: A(1) }, T::Zed { _0: A(7), a: A(1), c: A(1), arg: A(1) }, T::Zed { _0: A(7), a: A(7), c: A(1), arg: A(0) }, T::Zed { _0: A(1), a: A(7), c: A(1), arg: A(7) }, T::Zed { _0: A(1), a: A(0), c: A(0), arg: A(1) }, T::Zed { _0: A(7), a: A(1), c: A(1), arg: A(7) }, T::Zed { _0: A(0), a: A(7), c: A(0), arg: A(0) }, T::Zed { _0: A(7), a: A(1), c: A(1), arg: A(0) }, T::Zed { _0: A(7), a: A(7), c: A(7), arg: A(7) }] }
pub fn show(x: &T) -> String { #[allow(unused_variables)] match x { T::Unit => format!("Unit()"), T::Zed { _0: p0, a: p1, c: p2, arg: p3 } => format!("Zed({},{},{},{})", sv(p0), sv(p1), sv(p2), sv(p3)) } }
pub fn o_fmt(x: &T, f: &mut ::core::fmt::Formatter<'_>) -> ::core::fmt::Result { match x { T::Unit => f.write_str("Zz::Unit"), T::Zed { _0: p0, a: p1, c: p2, arg: p3 } => f.debug_tuple("Zz::Ren").field(p0).field(p1).field(p2).field(p3).finish() } }

pub fn run(out: &mut Out) { let vs = values(); for a in &vs { let g = format!("{:?}", a); let e = format!("{:?}", Fm(|f: &mut ::core::fmt::Formatter<'_>| o_fmt(a, f))); out.check(g == e, "debug_56", "debug", || format!("{{:?}} of {} = {:?} expected {:?}", show(a), g, e)); let g = format!("{:#?}", a); let e = format!("{:#?}", Fm(|f: &mut ::core::fmt::Formatter<'_>| o_fmt(a, f))); out.check(g == e, "debug_56", "debug_alt", || format!("{{:#?}} of {} = {:?} expected {:?}", show(a), g, e)); let g = format!("{:8?}", a); let e = format!("{:8?}", Fm(|f: &mut ::core::fmt::Formatter<'_>| o_fmt(a, f))); out.check(g == e, "debug_56", "debug_width", || format!("{{:8?}} of {} = {:?} expected {:?}", show(a), g, e)); }  }
