// ord_16
#![allow(dead_code, unused_variables, unused_mut, unused_imports, non_shorthand_field_patterns, clippy::all)]
use crate::support::*;
use educe::Educe;
use core::cmp::Ordering;
#[derive(Educe)]
#[educe(PartialOrd, Eq, PartialEq, Ord)]
pub struct T { #[educe(Ord = false)] _0: A<0>, #[educe(Ord(method = m_cmp))] arg: A<0>, source: A<2> }

pub fn values() -> Vec<T> { vec![T { _0: A(0), arg: A(0), source: A(0) }, T { _0: A(0), arg: A(0), source: A(1) }, T { _0: A(0), arg: A(0), source: A(7) }, T { _0: A(0), arg: A(1), source: A(0) }, T { _0: A(0), arg: A(1), source: A(1) }, T { _0: A(0), arg: A(1), source: A(7) }, T { _0: A(0), arg: A(7), source: A(0) }, T { _0: A(0), arg: A(7), source: A(1) }, T { _0: A(0), arg: A(7), source: A(7) }, T { _0: A(1), arg: A(0), source: A(0) }, T { _0: A(1), arg: A(0), source: A(1) }, T { _0: A(1), arg: A(0), source: A(7) }, T { _0: A(1), arg: A(1), source: A(0) }, T { _0: A(1), arg: A(1), source: A(1) }, T { _0: A(1), arg: A(1), source: A(7) }, T { _0: A(1), arg: A(7), source: A(0) }, T { _0: A(1), arg: A(7), source: A(1) }, T { _0: A(1), arg: A(7), source: A(7) }, T { _0: A(7), arg: A(0), source: A(0) }, T { _0: A(7), arg: A(0), source: A(1) }, T { _0: A(7), arg: A(0), source: A(7) }, T { _0: A(7), arg: A(1), source: A(0) }, T { _0: A(7), arg: A(1), source: A(1) }, T { _0: A(7), arg: A(1), source: A(7) }, T { _0: A(7), arg: A(7), source: A(0) }, T { _0: A(7), arg: A(7), source: A(1) }, T { _0: A(7), arg: A(7), source: A(7) }] }
pub fn show(x: &T) -> String { #[allow(unused_variables)] match x { T { _0: p0, arg: p1, source: p2 } => format!("T({},{},{})", sv(p0), sv(p1), sv(p2)) } }
pub fn o_disc(x: &T) -> i128 { match x { T { _0: _, arg: _, source: _ } => 0 } }
pub fn o_cmp(a: &T, b: &T) -> Ordering { match (a, b) { (T { _0: a0, arg: a1, source: a2 }, T { _0: b0, arg: b1, source: b2 }) => { let c = m_cmp(a1, b1); if c != Ordering::Equal { return c; } let c = ::core::cmp::Ord::cmp(a2, b2); if c != Ordering::Equal { return c; } Ordering::Equal } } }
pub fn run(out: &mut Out) { let vs = values(); for (i, a) in vs.iter().enumerate() { for (j, b) in vs.iter().enumerate() { let e = o_cmp(a, b); let g = ::core::cmp::Ord::cmp(a, b); out.check(g == e, "ord_16", "cmp", || format!("cmp({}, {}) = {:?} expected {:?}", show(a), show(b), g, e)); let g2 = ::core::cmp::PartialOrd::partial_cmp(a, b); out.check(g2 == Some(e), "ord_16", "partial_is_some_cmp", || format!("partial_cmp({}, {}) = {:?} expected Some({:?})", show(a), show(b), g2, e)); } } }
