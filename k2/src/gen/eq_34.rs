// eq_34
#![allow(dead_code, unused_variables, unused_mut, unused_imports, non_shorthand_field_patterns, clippy::all)]
use crate::support::*;
use educe::Educe;
use core::cmp::Ordering;
#[derive(Educe)]
#[educe(PartialEq)]
pub struct T { r#type: A<0>, #[educe(PartialEq(method("m_eq")))] f: A<0> }
pub fn values() -> Vec<T> { vec![T { r#type: A(0), f: A(0) }, T { r#type: A(0), f: A(1) }, T { r#type: A(0), f: A(7) }, T { r#type: A(1), f: A(0) }, T { r#type: A(1), f: A(1) }, T { r#type: A(1), f: A(7) }, T { r#type: A(7), f: A(0) }, T { r#type: A(7), f: A(1) }, T { r#type: A(7), f: A(7) }] }
pub fn show(x: &T) -> String { #[allow(unused_variables)] match x { T { r#type: p0, f: p1 } => format!("T({},{})", sv(p0), sv(p1)) } }
pub fn o_eq(a: &T, b: &T) -> bool { match (a, b) { (T { r#type: a0, f: a1 }, T { r#type: b0, f: b1 }) => (a0 == b0) && m_eq(a1, b1) } }
pub fn run(out: &mut Out) { let vs = values(); for a in &vs { for b in &vs { let e = o_eq(a, b); out.check((a == b) == e, "eq_34", "eq", || format!("{} == {} expected {}", show(a), show(b), e)); out.check((a != b) == !e, "eq_34", "ne", || format!("{} != {} expected {}", show(a), show(b), !e)); } } }
