// deref_26
#![allow(dead_code, unused_variables, unused_mut, unused_imports, non_shorthand_field_patterns, clippy::all)]
use crate::support::*;
use educe::Educe;
use core::cmp::Ordering;
#[derive(Educe)]
#[educe(Deref)]
pub enum T { None { #[educe(Deref)] f: A<2>, _0: A<0> }, Unit(#[educe(Deref)] A<2>, A<1>) }
pub fn values() -> Vec<T> { vec![T::None { f: A(0), _0: A(7) }, T::None { f: A(1), _0: A(0) }, T::None { f: A(0), _0: A(0) }, T::None { f: A(0), _0: A(1) }, T::None { f: A(1), _0: A(1) }, T::None { f: A(7), _0: A(0) }, T::None { f: A(7), _0: A(7) }, T::None { f: A(1), _0: A(7) }, T::Unit(A(7), A(1)), T::Unit(A(0), A(7)), T::Unit(A(0), A(0)), T::Unit(A(7), A(7)), T::Unit(A(0), A(1)), T::Unit(A(7), A(0)), T::Unit(A(1), A(0)), T::Unit(A(1), A(7))] }
pub fn show(x: &T) -> String { #[allow(unused_variables)] match x { T::None { f: p0, _0: p1 } => format!("None({},{})", sv(p0), sv(p1)), T::Unit(p0, p1) => format!("Unit({},{})", sv(p0), sv(p1)) } }
pub fn o_deref(x: &T) -> *const A<2> { match x { T::None { f: p0, _0: _ } => p0 as *const A<2>, T::Unit(p0, _) => p0 as *const A<2> } }
pub fn run(out: &mut Out) { let vs = values(); for a in &vs { let g = ::core::ops::Deref::deref(a) as *const A<2>; let e = o_deref(a); out.check(g == e, "deref_26", "deref", || format!("&*{} has another address than the designated field", show(a))); } }
