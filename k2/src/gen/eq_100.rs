// eq_100
#![allow(dead_code, unused_variables, unused_mut, unused_imports, non_shorthand_field_patterns, clippy::all)]
use crate::support::*;
use educe::Educe;
use core::cmp::Ordering;
#[derive(Educe)]
#[educe(PartialEq)]
pub enum T { None { #[educe(PartialEq(method = "m_eq"))] f: A<0>, #[educe(PartialEq(ignore))] x: A<0>, c: A<0> }, Unit }
pub fn values() -> Vec<T> { vec![T::None { f: A(1), x: A(7), c: A(7) }, T::None { f: A(1), x: A(7), c: A(0) }, T::None { f: A(7), x: A(1), c: A(1) }, T::None { f: A(0), x: A(0), c: A(0) }, T::None { f: A(1), x: A(1), c: A(7) }, T::None { f: A(7), x: A(1), c: A(0) }, T::None { f: A(1), x: A(0), c: A(1) }, T::None { f: A(1), x: A(1), c: A(0) }, T::None { f: A(0), x: A(1), c: A(1) }, T::None { f: A(0), x: A(0), c: A(1) }, T::None { f: A(0), x: A(1), c: A(0) }, T::None { f: A(0), x: A(1), c: A(7) }, T::None { f: A(1), x: A(0), c: A(7) }, T::None { f: A(7), x: A(7), c: A(1) }, T::None { f: A(1), x: A(0), c: A(0) }, T::None { f: A(1), x: A(1), c: A(1) }, T::None { f: A(0), x: A(7), c: A(7) }, T::None { f: A(7), x: A(7), c: A(7) }, T::None { f: A(1), x: A(7), c: A(1) }, T::None { f: A(7), x: A(0), c: A(7) }, T::None { f: A(0), x: A(7), c: A(1) }, T::None { f: A(7), x: A(1), c: A(7) }, T::None { f: A(7), x: A(0), c: A(0) }, T::None { f: A(7), x: A(7), c: A(0) }, T::Unit] }
pub fn show(x: &T) -> String { #[allow(unused_variables)] match x { T::None { f: p0, x: p1, c: p2 } => format!("None({},{},{})", sv(p0), sv(p1), sv(p2)), T::Unit => format!("Unit()") } }
pub fn o_eq(a: &T, b: &T) -> bool { match (a, b) { (T::None { f: a0, x: a1, c: a2 }, T::None { f: b0, x: b1, c: b2 }) => m_eq(a0, b0) && (a2 == b2), (T::Unit, T::Unit) => true, _ => false } }
pub fn run(out: &mut Out) { let vs = values(); for a in &vs { for b in &vs { let e = o_eq(a, b); out.check((a == b) == e, "eq_100", "eq", || format!("{} == {} expected {}", show(a), show(b), e)); out.check((a != b) == !e, "eq_100", "ne", || format!("{} != {} expected {}", show(a), show(b), !e)); } } }
