// ord_118
#![allow(dead_code, unused_variables, unused_mut, unused_imports, non_shorthand_field_patterns, clippy::all)]
use crate::support::*;
use educe::Educe;
use core::cmp::Ordering;
#[derive(Educe)]
#[educe(Ord, PartialEq, Eq, PartialOrd)]
pub struct T { #[educe(PartialOrd(method(m_cmp)))] r#type: A<0>, #[educe(PartialOrd(method = "m_cmp", rank = 8i64))] x: A<1>, #[educe(PartialOrd(ignore = true))] data: A<2> }

pub fn values() -> Vec<T> { vec![T { r#type: A(0), x: A(0), data: A(0) }, T { r#type: A(0), x: A(0), data: A(1) }, T { r#type: A(0), x: A(0), data: A(7) }, T { r#type: A(0), x: A(1), data: A(0) }, T { r#type: A(0), x: A(1), data: A(1) }, T { r#type: A(0), x: A(1), data: A(7) }, T { r#type: A(0), x: A(7), data: A(0) }, T { r#type: A(0), x: A(7), data: A(1) }, T { r#type: A(0), x: A(7), data: A(7) }, T { r#type: A(1), x: A(0), data: A(0) }, T { r#type: A(1), x: A(0), data: A(1) }, T { r#type: A(1), x: A(0), data: A(7) }, T { r#type: A(1), x: A(1), data: A(0) }, T { r#type: A(1), x: A(1), data: A(1) }, T { r#type: A(1), x: A(1), data: A(7) }, T { r#type: A(1), x: A(7), data: A(0) }, T { r#type: A(1), x: A(7), data: A(1) }, T { r#type: A(1), x: A(7), data: A(7) }, T { r#type: A(7), x: A(0), data: A(0) }, T { r#type: A(7), x: A(0), data: A(1) }, T { r#type: A(7), x: A(0), data: A(7) }, T { r#type: A(7), x: A(1), data: A(0) }, T { r#type: A(7), x: A(1), data: A(1) }, T { r#type: A(7), x: A(1), data: A(7) }, T { r#type: A(7), x: A(7), data: A(0) }, T { r#type: A(7), x: A(7), data: A(1) }, T { r#type: A(7), x: A(7), data: A(7) }] }
pub fn show(x: &T) -> String { #[allow(unused_variables)] match x { T { r#type: p0, x: p1, data: p2 } => format!("T({},{},{})", sv(p0), sv(p1), sv(p2)) } }
pub fn o_disc(x: &T) -> i128 { match x { T { r#type: _, x: _, data: _ } => 0 } }
pub fn o_cmp(a: &T, b: &T) -> Ordering { match (a, b) { (T { r#type: a0, x: a1, data: a2 }, T { r#type: b0, x: b1, data: b2 }) => { let c = m_cmp(a0, b0); if c != Ordering::Equal { return c; } let c = m_cmp(a1, b1); if c != Ordering::Equal { return c; } Ordering::Equal } } }
pub fn run(out: &mut Out) { let vs = values(); for (i, a) in vs.iter().enumerate() { for (j, b) in vs.iter().enumerate() { let e = o_cmp(a, b); let g = ::core::cmp::Ord::cmp(a, b); out.check(g == e, "ord_118", "cmp", || format!("cmp({}, {}) = {:?} expected {:?}", show(a), show(b), g, e)); let g2 = ::core::cmp::PartialOrd::partial_cmp(a, b); out.check(g2 == Some(e), "ord_118", "partial_is_some_cmp", || format!("partial_cmp({}, {}) = {:?} expected Some({:?})", show(a), show(b), g2, e)); } } }
