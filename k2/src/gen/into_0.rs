// into_0
#![allow(dead_code, unused_variables, unused_mut, unused_imports, non_shorthand_field_patterns, clippy::all)]
use crate::support::*;
use core::cmp::Ordering;
pub mod ty {
    #![deny(warnings)]
    #![allow(dead_code, unused_imports)]
    use crate::support::{A, B, C, Good, Bad, m_eq, m_cmp, m_pcmp, m_hash, m_fmt, m_clone, m_clone_c, m_into, g_eq, g_cmp, g_pcmp, g_hash, g_fmt};
    use educe::Educe;

    // names at the derive site that shadow everything the generated code might be tempted to write unqualified
    #[allow(non_camel_case_types)] pub struct Option; pub struct Result; pub struct Ordering; pub struct Clone; pub struct Copy;
    pub struct Default; pub struct Debug; pub struct PartialEq; pub struct Eq; pub struct PartialOrd; pub struct Ord; pub struct Hash;
    pub struct Hasher; pub struct Into; pub struct From; pub struct Deref; pub struct DerefMut; pub struct Formatter; pub struct String;
    pub struct Vec; pub struct Box; pub struct PhantomData; pub struct Sized; pub struct Send; pub struct Iterator; pub struct Self_;
    #[allow(non_snake_case)] pub fn Some() {} #[allow(non_snake_case)] pub fn None() {} #[allow(non_snake_case)] pub fn Ok() {} #[allow(non_snake_case)] pub fn Err() {}
    pub fn drop() {} pub mod core {} pub mod std {} pub mod alloc {} pub mod fmt {} pub mod cmp {} pub mod hash {} pub mod clone {} pub mod marker {}
    #[allow(unused_macros)] macro_rules! stringify { ($($t:tt)*) => { "SHADOWED" } }
    #[allow(unused_macros)] macro_rules! unreachable { ($($t:tt)*) => { () } }
    #[allow(unused_macros)] macro_rules! panic { ($($t:tt)*) => { () } }
    #[allow(unused_macros)] macro_rules! matches { ($($t:tt)*) => { true } }
    #[allow(unused_macros)] macro_rules! write { ($($t:tt)*) => { () } }
    #[allow(unused_macros)] macro_rules! format_args { ($($t:tt)*) => { () } }
    #[allow(unused_macros)] macro_rules! assert { ($($t:tt)*) => { () } }
#[derive(Educe)]
#[educe(Into(B<2>))]
pub enum T { Zed(A<1>, #[educe(Into(B<2>))] A<3>, A<1>), V1(#[educe(Into(B<2>, method = "m_into"))] A<1>, A<1>), Some { self_data: A<2> }, C(A<1>, #[educe(Into(B<2>))] A<2>) }
}
pub use ty::T;
pub fn values() -> Vec<T> { vec![T::Zed(A(1), A(7), A(7)), T::Zed(A(0), A(0), A(7)), T::Zed(A(7), A(1), A(7)), T::V1(A(0), A(0)), T::V1(A(7), A(7)), T::V1(A(7), A(1)), T::Some { self_data: A(0) }, T::Some { self_data: A(1) }, T::Some { self_data: A(7) }, T::C(A(1), A(1)), T::C(A(0), A(0)), T::C(A(1), A(7))] }
pub fn show(x: &T) -> String { #[allow(unused_variables)] match x { T::Zed(p0, p1, p2) => format!("Zed({},{},{})", sv(p0), sv(p1), sv(p2)), T::V1(p0, p1) => format!("V1({},{})", sv(p0), sv(p1)), T::Some { self_data: p0 } => format!("Some({})", sv(p0)), T::C(p0, p1) => format!("C({},{})", sv(p0), sv(p1)) } }
pub fn o_into_0(x: T) -> B<2> { match x { T::Zed(_, p1, _) => ::core::convert::Into::into(p1), T::V1(p0, _) => m_into(p0), T::Some { self_data: p0 } => ::core::convert::Into::into(p0), T::C(_, p1) => ::core::convert::Into::into(p1) } }
pub fn run(out: &mut Out) { let n = values().len(); for i in 0..n { let a = values().swap_remove(i); let shown = show(&a); let g: B<2> = ::core::convert::Into::into(a); let e = o_into_0(values().swap_remove(i)); out.check(sv(&g) == sv(&e), "into_0", "into", || format!("Into::<B<2>>::into({}) = {} expected {}", shown, sv(&g), sv(&e))); } }
