// debug_62
#![allow(dead_code, unused_variables, unused_mut, unused_imports, non_shorthand_field_patterns, clippy::all)]
use crate::support::*;
use educe::Educe;
use core::cmp::Ordering;
#[derive(Educe)]
#[educe(Debug(name = true))]
pub enum T { #[educe(Debug(name(Ren), named_field = false))] C {  }, Zed { arg: A<0>, #[educe(Debug(name = "k1"))] source: A<1> }, None }
pub fn values() -> Vec<T> { vec![T::C {  }, T::Zed { arg: A(1), source: A(1) }, T::Zed { arg: A(0), source: A(7) }, T::Zed { arg: A(1), source: A(0) }, T::Zed { arg: A(0), source: A(1) }, T::Zed { arg: A(7), source: A(0) }, T::Zed { arg: A(7), source: A(7) }, T::Zed { arg: A(0), source: A(0) }, T::Zed { arg: A(1), source: A(7) }, T::None] }
pub fn show(x: &T) -> String { #[allow(unused_variables)] match x { T::C {  } => format!("C()"), T::Zed { arg: p0, source: p1 } => format!("Zed({},{})", sv(p0), sv(p1)), T::None => format!("None()") } }
pub fn o_fmt(x: &T, f: &mut ::core::fmt::Formatter<'_>) -> ::core::fmt::Result { match x { T::C {  } => f.debug_tuple("T::Ren").finish(), T::Zed { arg: p0, source: p1 } => f.debug_struct("T::Zed").field("arg", p0).field("k1", p1).finish(), T::None => f.write_str("T::None") } }

pub fn run(out: &mut Out) { let vs = values(); for a in &vs { let g = format!("{:?}", a); let e = format!("{:?}", Fm(|f: &mut ::core::fmt::Formatter<'_>| o_fmt(a, f))); out.check(g == e, "debug_62", "debug", || format!("{{:?}} of {} = {:?} expected {:?}", show(a), g, e)); let g = format!("{:#?}", a); let e = format!("{:#?}", Fm(|f: &mut ::core::fmt::Formatter<'_>| o_fmt(a, f))); out.check(g == e, "debug_62", "debug_alt", || format!("{{:#?}} of {} = {:?} expected {:?}", show(a), g, e)); let g = format!("{:8?}", a); let e = format!("{:8?}", Fm(|f: &mut ::core::fmt::Formatter<'_>| o_fmt(a, f))); out.check(g == e, "debug_62", "debug_width", || format!("{{:8?}} of {} = {:?} expected {:?}", show(a), g, e)); }  }
