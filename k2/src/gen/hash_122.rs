// hash_122
#![allow(dead_code, unused_variables, unused_mut, unused_imports, non_shorthand_field_patterns, clippy::all)]
use crate::support::*;
use educe::Educe;
use core::cmp::Ordering;
#[derive(Educe)]
#[educe(Hash)]
pub enum T { None, Some { #[educe(Hash(ignore))] y: A<0>, a: A<1>, c: A<0> }, Unit(A<0>, A<0>) }
pub fn values() -> Vec<T> { vec![T::None, T::Some { y: A(0), a: A(0), c: A(7) }, T::Some { y: A(1), a: A(1), c: A(0) }, T::Some { y: A(7), a: A(1), c: A(0) }, T::Some { y: A(0), a: A(1), c: A(7) }, T::Some { y: A(0), a: A(7), c: A(1) }, T::Some { y: A(7), a: A(0), c: A(7) }, T::Some { y: A(1), a: A(1), c: A(1) }, T::Some { y: A(0), a: A(1), c: A(1) }, T::Some { y: A(0), a: A(1), c: A(0) }, T::Some { y: A(1), a: A(7), c: A(1) }, T::Some { y: A(7), a: A(0), c: A(1) }, T::Some { y: A(1), a: A(0), c: A(7) }, T::Some { y: A(0), a: A(0), c: A(1) }, T::Some { y: A(7), a: A(0), c: A(0) }, T::Some { y: A(1), a: A(0), c: A(0) }, T::Some { y: A(7), a: A(1), c: A(1) }, T::Unit(A(0), A(0)), T::Unit(A(0), A(1)), T::Unit(A(0), A(7)), T::Unit(A(1), A(0)), T::Unit(A(1), A(1)), T::Unit(A(1), A(7)), T::Unit(A(7), A(0)), T::Unit(A(7), A(1)), T::Unit(A(7), A(7))] }
pub fn show(x: &T) -> String { #[allow(unused_variables)] match x { T::None => format!("None()"), T::Some { y: p0, a: p1, c: p2 } => format!("Some({},{},{})", sv(p0), sv(p1), sv(p2)), T::Unit(p0, p1) => format!("Unit({},{})", sv(p0), sv(p1)) } }
pub fn o_hash(x: &T) -> Vec<String> { let mut e = Rec::default(); match x { T::None => { ::core::hash::Hash::hash(&0usize, &mut e); }, T::Some { y: p0, a: p1, c: p2 } => { ::core::hash::Hash::hash(&1usize, &mut e); ::core::hash::Hash::hash(p1, &mut e); ::core::hash::Hash::hash(p2, &mut e); }, T::Unit(p0, p1) => { ::core::hash::Hash::hash(&2usize, &mut e); ::core::hash::Hash::hash(p0, &mut e); ::core::hash::Hash::hash(p1, &mut e); } } e.0 }
pub fn run(out: &mut Out) { let vs = values(); for a in &vs { let mut g = Rec::default(); ::core::hash::Hash::hash(a, &mut g); let e = o_hash(a); out.check(g.0 == e, "hash_122", "hash", || format!("hash({}) fed {:?} expected {:?}", show(a), g.0, e)); } }
