// eq_109
#![allow(dead_code, unused_variables, unused_mut, unused_imports, non_shorthand_field_patterns, clippy::all)]
use crate::support::*;
use educe::Educe;
use core::cmp::Ordering;
#[derive(Educe)]
#[educe(PartialEq)]
pub enum T { Unit, Zed, C { #[educe(PartialEq(method = "m_eq"))] arg: A<0>, b: A<0> }, A { c: A<0>, state: A<1> } }
pub fn values() -> Vec<T> { vec![T::Unit, T::Zed, T::C { arg: A(0), b: A(0) }, T::C { arg: A(0), b: A(1) }, T::C { arg: A(0), b: A(7) }, T::C { arg: A(1), b: A(0) }, T::C { arg: A(1), b: A(1) }, T::C { arg: A(1), b: A(7) }, T::C { arg: A(7), b: A(0) }, T::C { arg: A(7), b: A(1) }, T::C { arg: A(7), b: A(7) }, T::A { c: A(0), state: A(0) }, T::A { c: A(0), state: A(1) }, T::A { c: A(0), state: A(7) }, T::A { c: A(1), state: A(0) }, T::A { c: A(1), state: A(1) }, T::A { c: A(1), state: A(7) }, T::A { c: A(7), state: A(0) }, T::A { c: A(7), state: A(1) }, T::A { c: A(7), state: A(7) }] }
pub fn show(x: &T) -> String { #[allow(unused_variables)] match x { T::Unit => format!("Unit()"), T::Zed => format!("Zed()"), T::C { arg: p0, b: p1 } => format!("C({},{})", sv(p0), sv(p1)), T::A { c: p0, state: p1 } => format!("A({},{})", sv(p0), sv(p1)) } }
pub fn o_eq(a: &T, b: &T) -> bool { match (a, b) { (T::Unit, T::Unit) => true, (T::Zed, T::Zed) => true, (T::C { arg: a0, b: a1 }, T::C { arg: b0, b: b1 }) => m_eq(a0, b0) && (a1 == b1), (T::A { c: a0, state: a1 }, T::A { c: b0, state: b1 }) => (a0 == b0) && (a1 == b1), _ => false } }
pub fn run(out: &mut Out) { let vs = values(); for a in &vs { for b in &vs { let e = o_eq(a, b); out.check((a == b) == e, "eq_109", "eq", || format!("{} == {} expected {}", show(a), show(b), e)); out.check((a != b) == !e, "eq_109", "ne", || format!("{} != {} expected {}", show(a), show(b), !e)); } } }
