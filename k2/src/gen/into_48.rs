// into_48
#![allow(dead_code, unused_variables, unused_mut, unused_imports, non_shorthand_field_patterns, clippy::all)]
use crate::support::*;
use educe::Educe;
use core::cmp::Ordering;
#[derive(Educe)]
#[educe(Into(B<1>))]
pub enum T { Unit { #[educe(Into(B<1>, method(m_into)))] r#type: A<2>, builder: A<2> }, Zed(#[educe(Into(B<1>))] A<1>, A<2>), Some(A<3>, #[educe(Into(B<1>))] A<3>), V1(#[educe(Into(B<1>))] A<0>, A<2>) }
pub fn values() -> Vec<T> { vec![T::Unit { r#type: A(7), builder: A(7) }, T::Unit { r#type: A(1), builder: A(7) }, T::Unit { r#type: A(0), builder: A(0) }, T::Zed(A(7), A(1)), T::Zed(A(7), A(0)), T::Zed(A(1), A(7)), T::Some(A(1), A(1)), T::Some(A(1), A(0)), T::Some(A(7), A(1)), T::V1(A(0), A(7)), T::V1(A(1), A(7)), T::V1(A(1), A(0))] }
pub fn show(x: &T) -> String { #[allow(unused_variables)] match x { T::Unit { r#type: p0, builder: p1 } => format!("Unit({},{})", sv(p0), sv(p1)), T::Zed(p0, p1) => format!("Zed({},{})", sv(p0), sv(p1)), T::Some(p0, p1) => format!("Some({},{})", sv(p0), sv(p1)), T::V1(p0, p1) => format!("V1({},{})", sv(p0), sv(p1)) } }
pub fn o_into_0(x: T) -> B<1> { match x { T::Unit { r#type: p0, builder: _ } => m_into(p0), T::Zed(p0, _) => ::core::convert::Into::into(p0), T::Some(_, p1) => ::core::convert::Into::into(p1), T::V1(p0, _) => ::core::convert::Into::into(p0) } }
pub fn run(out: &mut Out) { let n = values().len(); for i in 0..n { let a = values().swap_remove(i); let shown = show(&a); let g: B<1> = ::core::convert::Into::into(a); let e = o_into_0(values().swap_remove(i)); out.check(sv(&g) == sv(&e), "into_48", "into", || format!("Into::<B<1>>::into({}) = {} expected {}", shown, sv(&g), sv(&e))); } }
