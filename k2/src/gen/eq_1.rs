// eq_1
#![allow(dead_code, unused_variables, unused_mut, unused_imports, non_shorthand_field_patterns, clippy::all)]
use crate::support::*;
use educe::Educe;
use core::cmp::Ordering;
#[derive(Educe)]
#[educe(PartialEq)]
pub enum T { None { y: A<0>, source: A<0> }, Some, V1 { #[educe(PartialEq(ignore))] b: A<0> }, A {  } }
pub fn values() -> Vec<T> { vec![T::None { y: A(0), source: A(0) }, T::None { y: A(0), source: A(1) }, T::None { y: A(0), source: A(7) }, T::None { y: A(1), source: A(0) }, T::None { y: A(1), source: A(1) }, T::None { y: A(1), source: A(7) }, T::None { y: A(7), source: A(0) }, T::None { y: A(7), source: A(1) }, T::None { y: A(7), source: A(7) }, T::Some, T::V1 { b: A(0) }, T::V1 { b: A(1) }, T::V1 { b: A(7) }, T::A {  }] }
pub fn show(x: &T) -> String { #[allow(unused_variables)] match x { T::None { y: p0, source: p1 } => format!("None({},{})", sv(p0), sv(p1)), T::Some => format!("Some()"), T::V1 { b: p0 } => format!("V1({})", sv(p0)), T::A {  } => format!("A()") } }
pub fn o_eq(a: &T, b: &T) -> bool { match (a, b) { (T::None { y: a0, source: a1 }, T::None { y: b0, source: b1 }) => (a0 == b0) && (a1 == b1), (T::Some, T::Some) => true, (T::V1 { b: a0 }, T::V1 { b: b0 }) => true, (T::A {  }, T::A {  }) => true, _ => false } }
pub fn run(out: &mut Out) { let vs = values(); for a in &vs { for b in &vs { let e = o_eq(a, b); out.check((a == b) == e, "eq_1", "eq", || format!("{} == {} expected {}", show(a), show(b), e)); out.check((a != b) == !e, "eq_1", "ne", || format!("{} != {} expected {}", show(a), show(b), !e)); } } }
