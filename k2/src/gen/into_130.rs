// into_130
#![allow(dead_code, unused_variables, unused_mut, unused_imports, non_shorthand_field_patterns, clippy::all)]
use crate::support::*;
use educe::Educe;
use core::cmp::Ordering;
#[derive(Educe)]
#[educe(Into(A<1>))]
pub enum T { Some(A<0>, #[educe(Into(A<1>))] A<1>, A<2>), A { #[educe(Into(A<1>))] data: A<1> }, C(A<1>, #[educe(Into(A<1>))] A<1>, A<1>), Unit { #[educe(Into(A<1>))] _0: A<1>, source: A<0> } }
pub fn values() -> Vec<T> { vec![T::Some(A(7), A(0), A(0)), T::Some(A(7), A(7), A(7)), T::Some(A(0), A(7), A(7)), T::A { data: A(0) }, T::A { data: A(1) }, T::A { data: A(7) }, T::C(A(7), A(0), A(0)), T::C(A(1), A(0), A(0)), T::C(A(0), A(7), A(1)), T::Unit { _0: A(1), source: A(1) }, T::Unit { _0: A(1), source: A(7) }, T::Unit { _0: A(7), source: A(0) }] }
pub fn show(x: &T) -> String { #[allow(unused_variables)] match x { T::Some(p0, p1, p2) => format!("Some({},{},{})", sv(p0), sv(p1), sv(p2)), T::A { data: p0 } => format!("A({})", sv(p0)), T::C(p0, p1, p2) => format!("C({},{},{})", sv(p0), sv(p1), sv(p2)), T::Unit { _0: p0, source: p1 } => format!("Unit({},{})", sv(p0), sv(p1)) } }
pub fn o_into_0(x: T) -> A<1> { match x { T::Some(_, p1, _) => p1, T::A { data: p0 } => p0, T::C(_, p1, _) => p1, T::Unit { _0: p0, source: _ } => p0 } }
pub fn run(out: &mut Out) { let n = values().len(); for i in 0..n { let a = values().swap_remove(i); let shown = show(&a); let g: A<1> = ::core::convert::Into::into(a); let e = o_into_0(values().swap_remove(i)); out.check(sv(&g) == sv(&e), "into_130", "into", || format!("Into::<A<1>>::into({}) = {} expected {}", shown, sv(&g), sv(&e))); } }
