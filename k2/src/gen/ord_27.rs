// ord_27
#![allow(dead_code, unused_variables, unused_mut, unused_imports, non_shorthand_field_patterns, clippy::all)]
use crate::support::*;
use educe::Educe;
use core::cmp::Ordering;
#[derive(Educe)]
#[repr(i32)]
#[educe(PartialOrd, PartialEq, Eq)]
pub enum T { Zed(#[educe(PartialOrd(method(m_pcmp)))] A<0>, #[educe(PartialOrd(ignore = true))] A<1>, #[educe(PartialOrd(ignore = true))] A<0>) = 200 }

pub fn values() -> Vec<T> { vec![T::Zed(A(0), A(0), A(0)), T::Zed(A(0), A(0), A(1)), T::Zed(A(0), A(0), A(7)), T::Zed(A(0), A(1), A(0)), T::Zed(A(0), A(1), A(1)), T::Zed(A(0), A(1), A(7)), T::Zed(A(0), A(7), A(0)), T::Zed(A(0), A(7), A(1)), T::Zed(A(0), A(7), A(7)), T::Zed(A(1), A(0), A(0)), T::Zed(A(1), A(0), A(1)), T::Zed(A(1), A(0), A(7)), T::Zed(A(1), A(1), A(0)), T::Zed(A(1), A(1), A(1)), T::Zed(A(1), A(1), A(7)), T::Zed(A(1), A(7), A(0)), T::Zed(A(1), A(7), A(1)), T::Zed(A(1), A(7), A(7)), T::Zed(A(7), A(0), A(0)), T::Zed(A(7), A(0), A(1)), T::Zed(A(7), A(0), A(7)), T::Zed(A(7), A(1), A(0)), T::Zed(A(7), A(1), A(1)), T::Zed(A(7), A(1), A(7)), T::Zed(A(7), A(7), A(0)), T::Zed(A(7), A(7), A(1)), T::Zed(A(7), A(7), A(7))] }
pub fn show(x: &T) -> String { #[allow(unused_variables)] match x { T::Zed(p0, p1, p2) => format!("Zed({},{},{})", sv(p0), sv(p1), sv(p2)) } }
pub fn o_disc(x: &T) -> i128 { match x { T::Zed(_, _, _) => 200 } }
pub fn o_pcmp(a: &T, b: &T) -> Option<Ordering> { match (a, b) { (T::Zed(a0, a1, a2), T::Zed(b0, b1, b2)) => { match m_pcmp(a0, b0) { Some(Ordering::Equal) => (), x => return x } Some(Ordering::Equal) } } }
pub fn run(out: &mut Out) { let vs = values(); for (i, a) in vs.iter().enumerate() { for (j, b) in vs.iter().enumerate() { let e = o_pcmp(a, b); let g = ::core::cmp::PartialOrd::partial_cmp(a, b); out.check(g == e, "ord_27", "partial_cmp", || format!("partial_cmp({}, {}) = {:?} expected {:?}", show(a), show(b), g, e)); } } }
