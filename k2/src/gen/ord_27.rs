// ord_27
#![allow(dead_code, unused_variables, unused_mut, unused_imports, non_shorthand_field_patterns, clippy::all)]
use crate::support::*;
use core::cmp::Ordering;
pub mod ty {
    #![deny(warnings)]
    #![allow(dead_code, unused_imports, non_snake_case)]
    use crate::support::{A, B, C, Good, Bad, m_eq, m_cmp, m_pcmp, m_hash, m_fmt, m_clone, m_clone_c, m_into, g_eq, g_cmp, g_pcmp, g_hash, g_fmt};
    use educe::Educe;
#[derive(Educe)]
#[educe(Debug)]
#[educe(PartialOrd, Eq, PartialEq)]
pub enum T { C, Some {  }, B { #[educe(Debug(ignore = false), PartialOrd(rank(4)))] other: A<0>, #[educe(PartialOrd(rank = "6", ignore(false)))] #[educe(Debug(ignore = true))] c: A<1>, b: A<2>, #[educe(PartialOrd(method = "m_pcmp", rank("2")))] self_data: A<0> } }
}
pub use ty::T;

pub fn values() -> Vec<T> { vec![T::C, T::Some {  }, T::B { other: A(0), c: A(7), b: A(1), self_data: A(1) }, T::B { other: A(1), c: A(1), b: A(0), self_data: A(0) }, T::B { other: A(0), c: A(1), b: A(1), self_data: A(7) }, T::B { other: A(7), c: A(7), b: A(1), self_data: A(7) }, T::B { other: A(7), c: A(7), b: A(7), self_data: A(0) }, T::B { other: A(7), c: A(1), b: A(7), self_data: A(7) }, T::B { other: A(1), c: A(7), b: A(0), self_data: A(0) }, T::B { other: A(1), c: A(7), b: A(1), self_data: A(0) }, T::B { other: A(7), c: A(1), b: A(7), self_data: A(1) }, T::B { other: A(1), c: A(1), b: A(7), self_data: A(1) }, T::B { other: A(0), c: A(7), b: A(0), self_data: A(0) }, T::B { other: A(1), c: A(1), b: A(0), self_data: A(1) }] }
pub fn show(x: &T) -> String { #[allow(unused_variables)] match x { T::C => format!("C()"), T::Some {  } => format!("Some()"), T::B { other: p0, c: p1, b: p2, self_data: p3 } => format!("B({},{},{},{})", sv(p0), sv(p1), sv(p2), sv(p3)) } }
pub fn o_disc(x: &T) -> i128 { match x { T::C => 0, T::Some {  } => 1, T::B { other: _, c: _, b: _, self_data: _ } => 2 } }
pub fn o_pcmp(a: &T, b: &T) -> Option<Ordering> { match (a, b) { (T::C, T::C) => {  Some(Ordering::Equal) }, (T::Some {  }, T::Some {  }) => {  Some(Ordering::Equal) }, (T::B { other: a0, c: a1, b: a2, self_data: a3 }, T::B { other: b0, c: b1, b: b2, self_data: b3 }) => { match ::core::cmp::PartialOrd::partial_cmp(a2, b2) { Some(Ordering::Equal) => (), x => return x } match m_pcmp(a3, b3) { Some(Ordering::Equal) => (), x => return x } match ::core::cmp::PartialOrd::partial_cmp(a0, b0) { Some(Ordering::Equal) => (), x => return x } match ::core::cmp::PartialOrd::partial_cmp(a1, b1) { Some(Ordering::Equal) => (), x => return x } Some(Ordering::Equal) }, _ => Some(o_disc(a).cmp(&o_disc(b))) } }
pub fn run(out: &mut Out) { let vs = values(); for (i, a) in vs.iter().enumerate() { for (j, b) in vs.iter().enumerate() { let e = o_pcmp(a, b); let g = ::core::cmp::PartialOrd::partial_cmp(a, b); out.check(g == e, "ord_27", "partial_cmp", || format!("partial_cmp({}, {}) = {:?} expected {:?}", show(a), show(b), g, e)); } } }
