// ord_27
#![allow(dead_code, unused_variables, unused_mut, unused_imports, non_shorthand_field_patterns, clippy::all)]
use crate::support::*;
use educe::Educe;
use core::cmp::Ordering;
#[derive(Educe)]
#[repr(i64)]
#[educe(Ord, PartialOrd, PartialEq, Eq)]
pub enum T { B { #[educe(Ord(rank = 4i64))] data: A<0>, #[educe(Ord(rank = "3", method = "m_cmp"))] builder: A<1>, #[educe(Ord(rank = 0i64))] source: A<2> }, C = 3 }

pub fn values() -> Vec<T> { vec![T::B { data: A(0), builder: A(0), source: A(0) }, T::B { data: A(1), builder: A(0), source: A(0) }, T::B { data: A(0), builder: A(0), source: A(1) }, T::B { data: A(0), builder: A(1), source: A(1) }, T::B { data: A(7), builder: A(0), source: A(0) }, T::B { data: A(0), builder: A(1), source: A(0) }, T::B { data: A(0), builder: A(1), source: A(7) }, T::B { data: A(1), builder: A(0), source: A(7) }, T::B { data: A(1), builder: A(7), source: A(1) }, T::B { data: A(1), builder: A(1), source: A(0) }, T::B { data: A(7), builder: A(0), source: A(7) }, T::B { data: A(1), builder: A(1), source: A(7) }, T::B { data: A(7), builder: A(1), source: A(7) }, T::B { data: A(1), builder: A(7), source: A(7) }, T::B { data: A(7), builder: A(0), source: A(1) }, T::B { data: A(1), builder: A(7), source: A(0) }, T::B { data: A(1), builder: A(1), source: A(1) }, T::B { data: A(7), builder: A(1), source: A(0) }, T::C] }
pub fn show(x: &T) -> String { #[allow(unused_variables)] match x { T::B { data: p0, builder: p1, source: p2 } => format!("B({},{},{})", sv(p0), sv(p1), sv(p2)), T::C => format!("C()") } }
pub fn o_disc(x: &T) -> i128 { match x { T::B { data: _, builder: _, source: _ } => 0, T::C => 3 } }
pub fn o_cmp(a: &T, b: &T) -> Ordering { match (a, b) { (T::B { data: a0, builder: a1, source: a2 }, T::B { data: b0, builder: b1, source: b2 }) => { let c = ::core::cmp::Ord::cmp(a2, b2); if c != Ordering::Equal { return c; } let c = m_cmp(a1, b1); if c != Ordering::Equal { return c; } let c = ::core::cmp::Ord::cmp(a0, b0); if c != Ordering::Equal { return c; } Ordering::Equal }, (T::C, T::C) => {  Ordering::Equal }, _ => o_disc(a).cmp(&o_disc(b)) } }
pub fn run(out: &mut Out) { let vs = values(); for (i, a) in vs.iter().enumerate() { for (j, b) in vs.iter().enumerate() { let e = o_cmp(a, b); let g = ::core::cmp::Ord::cmp(a, b); out.check(g == e, "ord_27", "cmp", || format!("cmp({}, {}) = {:?} expected {:?}", show(a), show(b), g, e)); let g2 = ::core::cmp::PartialOrd::partial_cmp(a, b); out.check(g2 == Some(e), "ord_27", "partial_is_some_cmp", || format!("partial_cmp({}, {}) = {:?} expected Some({:?})", show(a), show(b), g2, e)); } } }
