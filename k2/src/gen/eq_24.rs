// eq_24
#![allow(dead_code, unused_variables, unused_mut, unused_imports, non_shorthand_field_patterns, clippy::all)]
use crate::support::*;
use educe::Educe;
use core::cmp::Ordering;
#[derive(Educe)]
#[educe(PartialEq, Eq)]
pub enum T { Some, V1 }
pub fn values() -> Vec<T> { vec![T::Some, T::V1] }
pub fn show(x: &T) -> String { #[allow(unused_variables)] match x { T::Some => format!("Some()"), T::V1 => format!("V1()") } }
pub fn o_eq(a: &T, b: &T) -> bool { match (a, b) { (T::Some, T::Some) => true, (T::V1, T::V1) => true, _ => false } }
pub fn run(out: &mut Out) { let vs = values(); for a in &vs { for b in &vs { let e = o_eq(a, b); out.check((a == b) == e, "eq_24", "eq", || format!("{} == {} expected {}", show(a), show(b), e)); out.check((a != b) == !e, "eq_24", "ne", || format!("{} != {} expected {}", show(a), show(b), !e)); } } }
