// into_20
#![allow(dead_code, unused_variables, unused_mut, unused_imports, non_shorthand_field_patterns, clippy::all)]
use crate::support::*;
use educe::Educe;
use core::cmp::Ordering;
#[derive(Educe)]
#[educe(Into(A<0>))]
#[educe(Into(B<0>))]
pub enum T { Unit { y: A<3>, _0: A<3>, #[educe(Into(B<0>))] f: A<0> }, Some(#[educe(Into(A<0>))] A<0>, #[educe(Into(B<0>, method(m_into)))] A<2>, A<0>), B { #[educe(Into(A<0>))] y: A<0> } }
pub fn values() -> Vec<T> { vec![T::Unit { y: A(7), _0: A(0), f: A(0) }, T::Unit { y: A(0), _0: A(7), f: A(7) }, T::Unit { y: A(7), _0: A(0), f: A(7) }, T::Unit { y: A(1), _0: A(0), f: A(1) }, T::Some(A(1), A(7), A(1)), T::Some(A(1), A(1), A(0)), T::Some(A(7), A(0), A(7)), T::Some(A(7), A(7), A(0)), T::B { y: A(0) }, T::B { y: A(1) }, T::B { y: A(7) }] }
pub fn show(x: &T) -> String { #[allow(unused_variables)] match x { T::Unit { y: p0, _0: p1, f: p2 } => format!("Unit({},{},{})", sv(p0), sv(p1), sv(p2)), T::Some(p0, p1, p2) => format!("Some({},{},{})", sv(p0), sv(p1), sv(p2)), T::B { y: p0 } => format!("B({})", sv(p0)) } }
pub fn o_into_0(x: T) -> A<0> { match x { T::Unit { y: _, _0: _, f: p2 } => p2, T::Some(p0, _, _) => p0, T::B { y: p0 } => p0 } }
pub fn o_into_1(x: T) -> B<0> { match x { T::Unit { y: _, _0: _, f: p2 } => ::core::convert::Into::into(p2), T::Some(_, p1, _) => m_into(p1), T::B { y: p0 } => ::core::convert::Into::into(p0) } }
pub fn run(out: &mut Out) { let n = values().len(); for i in 0..n { let a = values().swap_remove(i); let shown = show(&a); let g: A<0> = ::core::convert::Into::into(a); let e = o_into_0(values().swap_remove(i)); out.check(sv(&g) == sv(&e), "into_20", "into", || format!("Into::<A<0>>::into({}) = {} expected {}", shown, sv(&g), sv(&e))); } for i in 0..n { let a = values().swap_remove(i); let shown = show(&a); let g: B<0> = ::core::convert::Into::into(a); let e = o_into_1(values().swap_remove(i)); out.check(sv(&g) == sv(&e), "into_20", "into", || format!("Into::<B<0>>::into({}) = {} expected {}", shown, sv(&g), sv(&e))); } }
