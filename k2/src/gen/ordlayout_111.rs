// ordlayout_111
#![allow(dead_code, unused_variables, unused_mut, unused_imports, non_shorthand_field_patterns, clippy::all)]
use crate::support::*;
use educe::Educe;
use core::cmp::Ordering;
#[derive(Educe)]
#[repr(i64)]
#[educe(PartialEq, Ord, Eq)]
pub enum T { Zed = -170, V1(i64, #[educe(Ord(rank("-3")))] i64) = -5 }
impl PartialOrd for T { fn partial_cmp(&self, o: &Self) -> Option<Ordering> { Some(::core::cmp::Ord::cmp(self, o)) } }
pub fn values() -> Vec<T> { vec![T::Zed, T::V1(-5, -5), T::V1(-5, 0), T::V1(-5, 9), T::V1(0, -5), T::V1(0, 0), T::V1(0, 9), T::V1(9, -5), T::V1(9, 0), T::V1(9, 9)] }
pub fn show(x: &T) -> String { #[allow(unused_variables)] match x { T::Zed => format!("Zed()"), T::V1(p0, p1) => format!("V1({},{})", sv(p0), sv(p1)) } }
pub fn o_disc(x: &T) -> i128 { match x { T::Zed => -170, T::V1(_, _) => -5 } }
pub fn o_cmp(a: &T, b: &T) -> Ordering { match (a, b) { (T::Zed, T::Zed) => {  Ordering::Equal }, (T::V1(a0, a1), T::V1(b0, b1)) => { let c = ::core::cmp::Ord::cmp(a0, b0); if c != Ordering::Equal { return c; } let c = ::core::cmp::Ord::cmp(a1, b1); if c != Ordering::Equal { return c; } Ordering::Equal }, _ => o_disc(a).cmp(&o_disc(b)) } }
#[repr(C)] pub struct Wrap { pub pre: u8, pub x: T, pub post: [u8; 9] }
pub fn wrap(i: usize, n: u8) -> Wrap { Wrap { pre: n, x: values().swap_remove(i), post: [n; 9] } }
pub fn run(out: &mut Out) { let vs = values(); for (i, a) in vs.iter().enumerate() { for (j, b) in vs.iter().enumerate() { let e = o_cmp(a, b); let g = ::core::cmp::Ord::cmp(a, b); out.check(g == e, "ordlayout_111", "cmp", || format!("cmp({}, {}) = {:?} expected {:?}", show(a), show(b), g, e)); for n in [0u8, 1, 0x7f, 0x80, 0xff] { let wa = wrap(i, n); let wb = wrap(j, !n); let g = ::core::cmp::Ord::cmp(&wa.x, &wb.x); let e = o_cmp(a, b); out.check(g == e, "ordlayout_111", "cmp_neighbours", || format!("cmp({}, {}) with neighbour bytes {} = {:?} expected {:?}", show(a), show(b), n, g, e)); } } } }
