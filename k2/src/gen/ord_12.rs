// ord_12
#![allow(dead_code, unused_variables, unused_mut, unused_imports, non_shorthand_field_patterns, clippy::all)]
use crate::support::*;
use core::cmp::Ordering;
pub mod ty {
    #![deny(warnings)]
    #![allow(dead_code, unused_imports, non_snake_case)]
    use crate::support::{A, B, C, Good, Bad, m_eq, m_cmp, m_pcmp, m_hash, m_fmt, m_clone, m_clone_c, m_into, g_eq, g_cmp, g_pcmp, g_hash, g_fmt};
    use educe::Educe;
#[derive(Educe)]
#[educe(PartialOrd, PartialEq, Eq)]
pub struct T { #[educe(PartialOrd(rank = -3, ignore(false)))] pub c: A<0>, #[educe(PartialOrd(rank("4")))] pub self_data: A<0>, #[educe(PartialOrd(method(m_pcmp)))] pub source: A<2> }
}
pub use ty::T;

pub fn values() -> Vec<T> { vec![T { c: A(0), self_data: A(0), source: A(0) }, T { c: A(0), self_data: A(0), source: A(1) }, T { c: A(0), self_data: A(0), source: A(7) }, T { c: A(0), self_data: A(1), source: A(0) }, T { c: A(0), self_data: A(1), source: A(1) }, T { c: A(0), self_data: A(1), source: A(7) }, T { c: A(0), self_data: A(7), source: A(0) }, T { c: A(0), self_data: A(7), source: A(1) }, T { c: A(0), self_data: A(7), source: A(7) }, T { c: A(1), self_data: A(0), source: A(0) }, T { c: A(1), self_data: A(0), source: A(1) }, T { c: A(1), self_data: A(0), source: A(7) }, T { c: A(1), self_data: A(1), source: A(0) }, T { c: A(1), self_data: A(1), source: A(1) }, T { c: A(1), self_data: A(1), source: A(7) }, T { c: A(1), self_data: A(7), source: A(0) }, T { c: A(1), self_data: A(7), source: A(1) }, T { c: A(1), self_data: A(7), source: A(7) }, T { c: A(7), self_data: A(0), source: A(0) }, T { c: A(7), self_data: A(0), source: A(1) }, T { c: A(7), self_data: A(0), source: A(7) }, T { c: A(7), self_data: A(1), source: A(0) }, T { c: A(7), self_data: A(1), source: A(1) }, T { c: A(7), self_data: A(1), source: A(7) }, T { c: A(7), self_data: A(7), source: A(0) }, T { c: A(7), self_data: A(7), source: A(1) }, T { c: A(7), self_data: A(7), source: A(7) }] }
pub fn show(x: &T) -> String { #[allow(unused_variables)] match x { T { c: p0, self_data: p1, source: p2 } => format!("T({},{},{})", sv(p0), sv(p1), sv(p2)) } }
pub fn o_disc(x: &T) -> i128 { match x { T { c: _, self_data: _, source: _ } => 0 } }
pub fn o_pcmp(a: &T, b: &T) -> Option<Ordering> { match (a, b) { (T { c: a0, self_data: a1, source: a2 }, T { c: b0, self_data: b1, source: b2 }) => { match m_pcmp(a2, b2) { Some(Ordering::Equal) => (), x => return x } match ::core::cmp::PartialOrd::partial_cmp(a0, b0) { Some(Ordering::Equal) => (), x => return x } match ::core::cmp::PartialOrd::partial_cmp(a1, b1) { Some(Ordering::Equal) => (), x => return x } Some(Ordering::Equal) } } }
pub fn run(out: &mut Out) { let vs = values(); for (i, a) in vs.iter().enumerate() { for (j, b) in vs.iter().enumerate() { let e = o_pcmp(a, b); let g = ::core::cmp::PartialOrd::partial_cmp(a, b); out.check(g == e, "ord_12", "partial_cmp", || format!("partial_cmp({}, {}) = {:?} expected {:?}", show(a), show(b), g, e)); } } }
