// ord_12
#![allow(dead_code, unused_variables, unused_mut, unused_imports, non_shorthand_field_patterns, clippy::all)]
use crate::support::*;
use educe::Educe;
use core::cmp::Ordering;
#[derive(Educe)]
#[repr(i64)]
#[educe(PartialOrd, Eq, Ord, PartialEq)]
pub enum T { B, A(A<0>, #[educe(PartialOrd(ignore = true))] A<0>) }

pub fn values() -> Vec<T> { vec![T::B, T::A(A(0), A(0)), T::A(A(0), A(1)), T::A(A(0), A(7)), T::A(A(1), A(0)), T::A(A(1), A(1)), T::A(A(1), A(7)), T::A(A(7), A(0)), T::A(A(7), A(1)), T::A(A(7), A(7))] }
pub fn show(x: &T) -> String { #[allow(unused_variables)] match x { T::B => format!("B()"), T::A(p0, p1) => format!("A({},{})", sv(p0), sv(p1)) } }
pub fn o_disc(x: &T) -> i128 { match x { T::B => 0, T::A(_, _) => 1 } }
pub fn o_cmp(a: &T, b: &T) -> Ordering { match (a, b) { (T::B, T::B) => {  Ordering::Equal }, (T::A(a0, a1), T::A(b0, b1)) => { let c = ::core::cmp::Ord::cmp(a0, b0); if c != Ordering::Equal { return c; } Ordering::Equal }, _ => o_disc(a).cmp(&o_disc(b)) } }
pub fn run(out: &mut Out) { let vs = values(); for (i, a) in vs.iter().enumerate() { for (j, b) in vs.iter().enumerate() { let e = o_cmp(a, b); let g = ::core::cmp::Ord::cmp(a, b); out.check(g == e, "ord_12", "cmp", || format!("cmp({}, {}) = {:?} expected {:?}", show(a), show(b), g, e)); let g2 = ::core::cmp::PartialOrd::partial_cmp(a, b); out.check(g2 == Some(e), "ord_12", "partial_is_some_cmp", || format!("partial_cmp({}, {}) = {:?} expected Some({:?})", show(a), show(b), g2, e)); } } }
