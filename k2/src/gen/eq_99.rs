// eq_99
#![allow(dead_code, unused_variables, unused_mut, unused_imports, non_shorthand_field_patterns, clippy::all)]
use crate::support::*;
use educe::Educe;
use core::cmp::Ordering;
#[derive(Educe)]
#[educe(PartialEq)]
pub struct T { other: A<0>, #[educe(PartialEq(method(m_eq)))] x: A<1> }
pub fn values() -> Vec<T> { vec![T { other: A(0), x: A(0) }, T { other: A(0), x: A(1) }, T { other: A(0), x: A(7) }, T { other: A(1), x: A(0) }, T { other: A(1), x: A(1) }, T { other: A(1), x: A(7) }, T { other: A(7), x: A(0) }, T { other: A(7), x: A(1) }, T { other: A(7), x: A(7) }] }
pub fn show(x: &T) -> String { #[allow(unused_variables)] match x { T { other: p0, x: p1 } => format!("T({},{})", sv(p0), sv(p1)) } }
pub fn o_eq(a: &T, b: &T) -> bool { match (a, b) { (T { other: a0, x: a1 }, T { other: b0, x: b1 }) => (a0 == b0) && m_eq(a1, b1) } }
pub fn run(out: &mut Out) { let vs = values(); for a in &vs { for b in &vs { let e = o_eq(a, b); out.check((a == b) == e, "eq_99", "eq", || format!("{} == {} expected {}", show(a), show(b), e)); out.check((a != b) == !e, "eq_99", "ne", || format!("{} != {} expected {}", show(a), show(b), !e)); } } }
