// eq_0
#![allow(dead_code, unused_variables, unused_mut, unused_imports, non_shorthand_field_patterns, clippy::all)]
use crate::support::*;
use educe::Educe;
use core::cmp::Ordering;
#[derive(Educe)]
#[educe(PartialEq, Eq)]
pub enum T { None { source: A<0>, x: A<0> }, A(), Unit {  } }
pub fn values() -> Vec<T> { vec![T::None { source: A(0), x: A(0) }, T::None { source: A(0), x: A(1) }, T::None { source: A(0), x: A(7) }, T::None { source: A(1), x: A(0) }, T::None { source: A(1), x: A(1) }, T::None { source: A(1), x: A(7) }, T::None { source: A(7), x: A(0) }, T::None { source: A(7), x: A(1) }, T::None { source: A(7), x: A(7) }, T::A(), T::Unit {  }] }
pub fn show(x: &T) -> String { #[allow(unused_variables)] match x { T::None { source: p0, x: p1 } => format!("None({},{})", sv(p0), sv(p1)), T::A() => format!("A()"), T::Unit {  } => format!("Unit()") } }
pub fn o_eq(a: &T, b: &T) -> bool { match (a, b) { (T::None { source: a0, x: a1 }, T::None { source: b0, x: b1 }) => (a0 == b0) && (a1 == b1), (T::A(), T::A()) => true, (T::Unit {  }, T::Unit {  }) => true, _ => false } }
pub fn run(out: &mut Out) { let vs = values(); for a in &vs { for b in &vs { let e = o_eq(a, b); out.check((a == b) == e, "eq_0", "eq", || format!("{} == {} expected {}", show(a), show(b), e)); out.check((a != b) == !e, "eq_0", "ne", || format!("{} != {} expected {}", show(a), show(b), !e)); } } }
