// eq_0
#![allow(dead_code, unused_variables, unused_mut, unused_imports, non_shorthand_field_patterns, clippy::all)]
use crate::support::*;
use educe::Educe;
use core::cmp::Ordering;
#[derive(Educe)]
#[educe(PartialEq)]
pub enum T { Zed { #[educe(PartialEq(ignore(true)))] data: A<0>, r#type: A<1> } }
pub fn values() -> Vec<T> { vec![T::Zed { data: A(0), r#type: A(0) }, T::Zed { data: A(0), r#type: A(1) }, T::Zed { data: A(0), r#type: A(7) }, T::Zed { data: A(1), r#type: A(0) }, T::Zed { data: A(1), r#type: A(1) }, T::Zed { data: A(1), r#type: A(7) }, T::Zed { data: A(7), r#type: A(0) }, T::Zed { data: A(7), r#type: A(1) }, T::Zed { data: A(7), r#type: A(7) }] }
pub fn show(x: &T) -> String { #[allow(unused_variables)] match x { T::Zed { data: p0, r#type: p1 } => format!("Zed({},{})", sv(p0), sv(p1)) } }
pub fn o_eq(a: &T, b: &T) -> bool { match (a, b) { (T::Zed { data: a0, r#type: a1 }, T::Zed { data: b0, r#type: b1 }) => (a1 == b1) } }
pub fn run(out: &mut Out) { let vs = values(); for a in &vs { for b in &vs { let e = o_eq(a, b); out.check((a == b) == e, "eq_0", "eq", || format!("{} == {} expected {}", show(a), show(b), e)); out.check((a != b) == !e, "eq_0", "ne", || format!("{} != {} expected {}", show(a), show(b), !e)); } } }
