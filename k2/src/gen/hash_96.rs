// hash_96
#![allow(dead_code, unused_variables, unused_mut, unused_imports, non_shorthand_field_patterns, clippy::all)]
use crate::support::*;
use educe::Educe;
use core::cmp::Ordering;
#[derive(Educe)]
#[educe(Hash)]
pub enum T { C { #[educe(Hash(ignore(true)))] state: A<0>, _0: A<0>, arg: A<2> }, V1, Zed { arg: A<0> } }
pub fn values() -> Vec<T> { vec![T::C { state: A(0), _0: A(7), arg: A(0) }, T::C { state: A(7), _0: A(0), arg: A(1) }, T::C { state: A(1), _0: A(0), arg: A(7) }, T::C { state: A(0), _0: A(0), arg: A(7) }, T::C { state: A(1), _0: A(1), arg: A(7) }, T::C { state: A(0), _0: A(1), arg: A(0) }, T::C { state: A(1), _0: A(1), arg: A(1) }, T::C { state: A(0), _0: A(0), arg: A(0) }, T::C { state: A(7), _0: A(1), arg: A(1) }, T::C { state: A(7), _0: A(0), arg: A(7) }, T::C { state: A(7), _0: A(1), arg: A(7) }, T::C { state: A(7), _0: A(7), arg: A(7) }, T::C { state: A(7), _0: A(1), arg: A(0) }, T::C { state: A(0), _0: A(0), arg: A(1) }, T::C { state: A(7), _0: A(0), arg: A(0) }, T::C { state: A(0), _0: A(7), arg: A(1) }, T::V1, T::Zed { arg: A(0) }, T::Zed { arg: A(1) }, T::Zed { arg: A(7) }] }
pub fn show(x: &T) -> String { #[allow(unused_variables)] match x { T::C { state: p0, _0: p1, arg: p2 } => format!("C({},{},{})", sv(p0), sv(p1), sv(p2)), T::V1 => format!("V1()"), T::Zed { arg: p0 } => format!("Zed({})", sv(p0)) } }
pub fn o_hash(x: &T) -> Vec<String> { let mut e = Rec::default(); match x { T::C { state: p0, _0: p1, arg: p2 } => { ::core::hash::Hash::hash(&0usize, &mut e); ::core::hash::Hash::hash(p1, &mut e); ::core::hash::Hash::hash(p2, &mut e); }, T::V1 => { ::core::hash::Hash::hash(&1usize, &mut e); }, T::Zed { arg: p0 } => { ::core::hash::Hash::hash(&2usize, &mut e); ::core::hash::Hash::hash(p0, &mut e); } } e.0 }
pub fn run(out: &mut Out) { let vs = values(); for a in &vs { let mut g = Rec::default(); ::core::hash::Hash::hash(a, &mut g); let e = o_hash(a); out.check(g.0 == e, "hash_96", "hash", || format!("hash({}) fed {:?} expected {:?}", show(a), g.0, e)); } }
