// eq_38
#![allow(dead_code, unused_variables, unused_mut, unused_imports, non_shorthand_field_patterns, clippy::all)]
use crate::support::*;
use educe::Educe;
use core::cmp::Ordering;
#[derive(Educe)]
#[educe(PartialEq)]
pub enum T { A {  }, Zed { #[educe(PartialEq(ignore))] f: A<0>, #[educe(PartialEq(ignore = true))] other: A<0>, state: A<2> } }
pub fn values() -> Vec<T> { vec![T::A {  }, T::Zed { f: A(7), other: A(7), state: A(1) }, T::Zed { f: A(1), other: A(7), state: A(0) }, T::Zed { f: A(0), other: A(0), state: A(0) }, T::Zed { f: A(0), other: A(1), state: A(0) }, T::Zed { f: A(1), other: A(0), state: A(7) }, T::Zed { f: A(0), other: A(7), state: A(0) }, T::Zed { f: A(7), other: A(7), state: A(7) }, T::Zed { f: A(1), other: A(7), state: A(1) }, T::Zed { f: A(7), other: A(7), state: A(0) }, T::Zed { f: A(0), other: A(1), state: A(7) }, T::Zed { f: A(1), other: A(1), state: A(0) }, T::Zed { f: A(0), other: A(0), state: A(7) }, T::Zed { f: A(7), other: A(0), state: A(0) }, T::Zed { f: A(1), other: A(0), state: A(1) }, T::Zed { f: A(0), other: A(7), state: A(1) }, T::Zed { f: A(7), other: A(0), state: A(7) }, T::Zed { f: A(0), other: A(7), state: A(7) }, T::Zed { f: A(7), other: A(0), state: A(1) }, T::Zed { f: A(1), other: A(1), state: A(1) }, T::Zed { f: A(7), other: A(1), state: A(1) }, T::Zed { f: A(1), other: A(1), state: A(7) }, T::Zed { f: A(0), other: A(1), state: A(1) }, T::Zed { f: A(1), other: A(7), state: A(7) }, T::Zed { f: A(7), other: A(1), state: A(7) }] }
pub fn show(x: &T) -> String { #[allow(unused_variables)] match x { T::A {  } => format!("A()"), T::Zed { f: p0, other: p1, state: p2 } => format!("Zed({},{},{})", sv(p0), sv(p1), sv(p2)) } }
pub fn o_eq(a: &T, b: &T) -> bool { match (a, b) { (T::A {  }, T::A {  }) => true, (T::Zed { f: a0, other: a1, state: a2 }, T::Zed { f: b0, other: b1, state: b2 }) => (a2 == b2), _ => false } }
pub fn run(out: &mut Out) { let vs = values(); for a in &vs { for b in &vs { let e = o_eq(a, b); out.check((a == b) == e, "eq_38", "eq", || format!("{} == {} expected {}", show(a), show(b), e)); out.check((a != b) == !e, "eq_38", "ne", || format!("{} != {} expected {}", show(a), show(b), !e)); } } }
