// into_86
#![allow(dead_code, unused_variables, unused_mut, unused_imports, non_shorthand_field_patterns, clippy::all)]
use crate::support::*;
use educe::Educe;
use core::cmp::Ordering;
#[derive(Educe)]
#[educe(Into(B<1>), Into(A<0>))]
pub enum T { C { data: A<0> }, Zed { b: A<3>, _0: A<2>, #[educe(Into(B<1>))] r#type: A<0> } }
pub fn values() -> Vec<T> { vec![T::C { data: A(0) }, T::C { data: A(1) }, T::C { data: A(7) }, T::Zed { b: A(0), _0: A(0), r#type: A(7) }, T::Zed { b: A(0), _0: A(0), r#type: A(1) }, T::Zed { b: A(0), _0: A(7), r#type: A(7) }, T::Zed { b: A(1), _0: A(7), r#type: A(1) }, T::Zed { b: A(7), _0: A(1), r#type: A(7) }, T::Zed { b: A(7), _0: A(0), r#type: A(1) }] }
pub fn show(x: &T) -> String { #[allow(unused_variables)] match x { T::C { data: p0 } => format!("C({})", sv(p0)), T::Zed { b: p0, _0: p1, r#type: p2 } => format!("Zed({},{},{})", sv(p0), sv(p1), sv(p2)) } }
pub fn o_into_0(x: T) -> B<1> { match x { T::C { data: p0 } => ::core::convert::Into::into(p0), T::Zed { b: _, _0: _, r#type: p2 } => ::core::convert::Into::into(p2) } }
pub fn o_into_1(x: T) -> A<0> { match x { T::C { data: p0 } => p0, T::Zed { b: _, _0: _, r#type: p2 } => p2 } }
pub fn run(out: &mut Out) { let n = values().len(); for i in 0..n { let a = values().swap_remove(i); let shown = show(&a); let g: B<1> = ::core::convert::Into::into(a); let e = o_into_0(values().swap_remove(i)); out.check(sv(&g) == sv(&e), "into_86", "into", || format!("Into::<B<1>>::into({}) = {} expected {}", shown, sv(&g), sv(&e))); } for i in 0..n { let a = values().swap_remove(i); let shown = show(&a); let g: A<0> = ::core::convert::Into::into(a); let e = o_into_1(values().swap_remove(i)); out.check(sv(&g) == sv(&e), "into_86", "into", || format!("Into::<A<0>>::into({}) = {} expected {}", shown, sv(&g), sv(&e))); } }
