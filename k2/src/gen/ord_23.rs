// ord_23
#![allow(dead_code, unused_variables, unused_mut, unused_imports, non_shorthand_field_patterns, clippy::all)]
use crate::support::*;
use core::cmp::Ordering;
pub mod ty {
    #![deny(warnings)]
    #![allow(dead_code, unused_imports, non_snake_case)]
    use crate::support::{A, B, C, Good, Bad, m_eq, m_cmp, m_pcmp, m_hash, m_fmt, m_clone, m_clone_c, m_into, g_eq, g_cmp, g_pcmp, g_hash, g_fmt};
    use educe::Educe;
#[derive(Educe)]
#[repr(isize)]
#[educe(PartialEq, Ord, Eq)]
pub enum T { V1 { #[educe(Ord(ignore = true))] x: A<0>, #[educe(Ord(rank(-6), method(m_cmp)))] r#type: A<0>, #[educe(Ord(ignore(true)))] b: A<2> } = 70000, Some { source: A<0>, #[educe(Ord(method(m_cmp), rank = "1"))] b: A<1>, data: A<0> } }
}
pub use ty::T;
impl PartialOrd for T { fn partial_cmp(&self, o: &Self) -> Option<Ordering> { Some(::core::cmp::Ord::cmp(self, o)) } }
pub fn values() -> Vec<T> { vec![T::V1 { x: A(1), r#type: A(1), b: A(0) }, T::V1 { x: A(1), r#type: A(7), b: A(1) }, T::V1 { x: A(1), r#type: A(0), b: A(7) }, T::V1 { x: A(0), r#type: A(7), b: A(1) }, T::V1 { x: A(7), r#type: A(7), b: A(1) }, T::V1 { x: A(7), r#type: A(7), b: A(7) }, T::V1 { x: A(0), r#type: A(7), b: A(7) }, T::V1 { x: A(1), r#type: A(0), b: A(0) }, T::V1 { x: A(7), r#type: A(7), b: A(0) }, T::V1 { x: A(0), r#type: A(0), b: A(0) }, T::V1 { x: A(7), r#type: A(0), b: A(7) }, T::V1 { x: A(0), r#type: A(7), b: A(0) }, T::V1 { x: A(0), r#type: A(1), b: A(7) }, T::V1 { x: A(1), r#type: A(1), b: A(7) }, T::V1 { x: A(7), r#type: A(1), b: A(0) }, T::V1 { x: A(0), r#type: A(1), b: A(1) }, T::V1 { x: A(7), r#type: A(1), b: A(1) }, T::V1 { x: A(7), r#type: A(0), b: A(0) }, T::Some { source: A(0), b: A(0), data: A(0) }, T::Some { source: A(7), b: A(7), data: A(1) }, T::Some { source: A(0), b: A(7), data: A(1) }, T::Some { source: A(1), b: A(0), data: A(0) }, T::Some { source: A(7), b: A(0), data: A(0) }, T::Some { source: A(1), b: A(0), data: A(7) }, T::Some { source: A(0), b: A(0), data: A(7) }, T::Some { source: A(0), b: A(7), data: A(0) }, T::Some { source: A(7), b: A(0), data: A(7) }, T::Some { source: A(7), b: A(0), data: A(1) }, T::Some { source: A(0), b: A(0), data: A(1) }, T::Some { source: A(7), b: A(1), data: A(1) }, T::Some { source: A(1), b: A(7), data: A(0) }, T::Some { source: A(0), b: A(7), data: A(7) }, T::Some { source: A(1), b: A(1), data: A(7) }, T::Some { source: A(1), b: A(0), data: A(1) }, T::Some { source: A(1), b: A(1), data: A(0) }, T::Some { source: A(7), b: A(7), data: A(7) }] }
pub fn show(x: &T) -> String { #[allow(unused_variables)] match x { T::V1 { x: p0, r#type: p1, b: p2 } => format!("V1({},{},{})", sv(p0), sv(p1), sv(p2)), T::Some { source: p0, b: p1, data: p2 } => format!("Some({},{},{})", sv(p0), sv(p1), sv(p2)) } }
pub fn o_disc(x: &T) -> i128 { match x { T::V1 { x: _, r#type: _, b: _ } => 70000, T::Some { source: _, b: _, data: _ } => 70001 } }
pub fn o_cmp(a: &T, b: &T) -> Ordering { match (a, b) { (T::V1 { x: a0, r#type: a1, b: a2 }, T::V1 { x: b0, r#type: b1, b: b2 }) => { let c = m_cmp(a1, b1); if c != Ordering::Equal { return c; } Ordering::Equal }, (T::Some { source: a0, b: a1, data: a2 }, T::Some { source: b0, b: b1, data: b2 }) => { let c = ::core::cmp::Ord::cmp(a0, b0); if c != Ordering::Equal { return c; } let c = ::core::cmp::Ord::cmp(a2, b2); if c != Ordering::Equal { return c; } let c = m_cmp(a1, b1); if c != Ordering::Equal { return c; } Ordering::Equal }, _ => o_disc(a).cmp(&o_disc(b)) } }
pub fn run(out: &mut Out) { let vs = values(); for (i, a) in vs.iter().enumerate() { for (j, b) in vs.iter().enumerate() { let e = o_cmp(a, b); let g = ::core::cmp::Ord::cmp(a, b); out.check(g == e, "ord_23", "cmp", || format!("cmp({}, {}) = {:?} expected {:?}", show(a), show(b), g, e)); } } }
