// ordlayout_35
#![allow(dead_code, unused_variables, unused_mut, unused_imports, non_shorthand_field_patterns, clippy::all)]
use crate::support::*;
use core::cmp::Ordering;
pub mod ty {
    #![deny(warnings)]
    #![allow(dead_code, unused_imports, non_snake_case)]
    use crate::support::{A, B, C, Good, Bad, m_eq, m_cmp, m_pcmp, m_hash, m_fmt, m_clone, m_clone_c, m_into, g_eq, g_cmp, g_pcmp, g_hash, g_fmt};
    use educe::Educe;
#[derive(Educe)]
#[repr(isize)]
#[educe(Debug)]
#[educe(Ord, PartialOrd, PartialEq, Eq)]
pub enum T { Unit { #[educe(Ord(rank = 2i64))] self_data: bool, other: Option<u8> } = 255, None { #[educe(Ord(rank = 2))] r#type: Option<u8>, #[educe(Ord(rank("1"), ignore(false)))] other_data: Option<u8>, a: &'static u8 }, B(#[educe(Debug(ignore = true))] Option<u8>, #[educe(Ord(rank = "+4"))] &'static u8) = -170, Zed = 200 }
}
pub use ty::T;

pub fn values() -> Vec<T> { vec![T::Unit { self_data: false, other: None }, T::Unit { self_data: false, other: Some(0) }, T::Unit { self_data: false, other: Some(255) }, T::Unit { self_data: true, other: None }, T::Unit { self_data: true, other: Some(0) }, T::Unit { self_data: true, other: Some(255) }, T::None { r#type: Some(255), other_data: None, a: &200u8 }, T::None { r#type: Some(0), other_data: Some(0), a: &200u8 }, T::None { r#type: Some(255), other_data: Some(0), a: &3u8 }, T::None { r#type: Some(255), other_data: Some(0), a: &200u8 }, T::None { r#type: Some(0), other_data: Some(0), a: &3u8 }, T::None { r#type: None, other_data: Some(255), a: &3u8 }, T::None { r#type: None, other_data: None, a: &3u8 }, T::None { r#type: None, other_data: Some(0), a: &200u8 }, T::None { r#type: Some(0), other_data: Some(255), a: &3u8 }, T::B(None, &3u8), T::B(None, &200u8), T::B(Some(0), &3u8), T::B(Some(0), &200u8), T::B(Some(255), &3u8), T::B(Some(255), &200u8), T::Zed] }
pub fn show(x: &T) -> String { #[allow(unused_variables)] match x { T::Unit { self_data: p0, other: p1 } => format!("Unit({},{})", sv(p0), sv(p1)), T::None { r#type: p0, other_data: p1, a: p2 } => format!("None({},{},{})", sv(p0), sv(p1), sv(p2)), T::B(p0, p1) => format!("B({},{})", sv(p0), sv(p1)), T::Zed => format!("Zed()") } }
pub fn o_disc(x: &T) -> i128 { match x { T::Unit { self_data: _, other: _ } => 255, T::None { r#type: _, other_data: _, a: _ } => 256, T::B(_, _) => -170, T::Zed => 200 } }
pub fn o_cmp(a: &T, b: &T) -> Ordering { match (a, b) { (T::Unit { self_data: a0, other: a1 }, T::Unit { self_data: b0, other: b1 }) => { let c = ::core::cmp::Ord::cmp(a1, b1); if c != Ordering::Equal { return c; } let c = ::core::cmp::Ord::cmp(a0, b0); if c != Ordering::Equal { return c; } Ordering::Equal }, (T::None { r#type: a0, other_data: a1, a: a2 }, T::None { r#type: b0, other_data: b1, a: b2 }) => { let c = ::core::cmp::Ord::cmp(a2, b2); if c != Ordering::Equal { return c; } let c = ::core::cmp::Ord::cmp(a1, b1); if c != Ordering::Equal { return c; } let c = ::core::cmp::Ord::cmp(a0, b0); if c != Ordering::Equal { return c; } Ordering::Equal }, (T::B(a0, a1), T::B(b0, b1)) => { let c = ::core::cmp::Ord::cmp(a0, b0); if c != Ordering::Equal { return c; } let c = ::core::cmp::Ord::cmp(a1, b1); if c != Ordering::Equal { return c; } Ordering::Equal }, (T::Zed, T::Zed) => {  Ordering::Equal }, _ => o_disc(a).cmp(&o_disc(b)) } }
#[repr(C)] pub struct Wrap { pub pre: u8, pub x: T, pub post: [u8; 9] }
pub fn wrap(i: usize, n: u8) -> Wrap { Wrap { pre: n, x: values().swap_remove(i), post: [n; 9] } }
pub fn run(out: &mut Out) { let vs = values(); for (i, a) in vs.iter().enumerate() { for (j, b) in vs.iter().enumerate() { let e = o_cmp(a, b); let g = ::core::cmp::Ord::cmp(a, b); out.check(g == e, "ordlayout_35", "cmp", || format!("cmp({}, {}) = {:?} expected {:?}", show(a), show(b), g, e)); let g2 = ::core::cmp::PartialOrd::partial_cmp(a, b); out.check(g2 == Some(e), "ordlayout_35", "partial_is_some_cmp", || format!("partial_cmp({}, {}) = {:?} expected Some({:?})", show(a), show(b), g2, e)); for n in [0u8, 1, 0x7f, 0x80, 0xff] { let wa = wrap(i, n); let wb = wrap(j, !n); let g = ::core::cmp::Ord::cmp(&wa.x, &wb.x); let e = o_cmp(a, b); out.check(g == e, "ordlayout_35", "cmp_neighbours", || format!("cmp({}, {}) with neighbour bytes {} = {:?} expected {:?}", show(a), show(b), n, g, e)); } } } }
