// ordlayout_35
#![allow(dead_code, unused_variables, unused_mut, unused_imports, non_shorthand_field_patterns, clippy::all)]
use crate::support::*;
use educe::Educe;
use core::cmp::Ordering;
#[derive(Educe)]
#[repr(i64)]
#[educe(PartialEq, Ord, Eq)]
pub enum T { V1 { #[educe(Ord(rank = "8"))] a: u8, size: i64 } = 0, B(&'static u8) }
impl PartialOrd for T { fn partial_cmp(&self, o: &Self) -> Option<Ordering> { Some(::core::cmp::Ord::cmp(self, o)) } }
pub fn values() -> Vec<T> { vec![T::V1 { a: 0, size: -5 }, T::V1 { a: 0, size: 0 }, T::V1 { a: 0, size: 9 }, T::V1 { a: 100, size: -5 }, T::V1 { a: 100, size: 0 }, T::V1 { a: 100, size: 9 }, T::V1 { a: 200, size: -5 }, T::V1 { a: 200, size: 0 }, T::V1 { a: 200, size: 9 }, T::B(&3u8), T::B(&200u8)] }
pub fn show(x: &T) -> String { #[allow(unused_variables)] match x { T::V1 { a: p0, size: p1 } => format!("V1({},{})", sv(p0), sv(p1)), T::B(p0) => format!("B({})", sv(p0)) } }
pub fn o_disc(x: &T) -> i128 { match x { T::V1 { a: _, size: _ } => 0, T::B(_) => 1 } }
pub fn o_cmp(a: &T, b: &T) -> Ordering { match (a, b) { (T::V1 { a: a0, size: a1 }, T::V1 { a: b0, size: b1 }) => { let c = ::core::cmp::Ord::cmp(a1, b1); if c != Ordering::Equal { return c; } let c = ::core::cmp::Ord::cmp(a0, b0); if c != Ordering::Equal { return c; } Ordering::Equal }, (T::B(a0), T::B(b0)) => { let c = ::core::cmp::Ord::cmp(a0, b0); if c != Ordering::Equal { return c; } Ordering::Equal }, _ => o_disc(a).cmp(&o_disc(b)) } }
#[repr(C)] pub struct Wrap { pub pre: u8, pub x: T, pub post: [u8; 9] }
pub fn wrap(i: usize, n: u8) -> Wrap { Wrap { pre: n, x: values().swap_remove(i), post: [n; 9] } }
pub fn run(out: &mut Out) { let vs = values(); for (i, a) in vs.iter().enumerate() { for (j, b) in vs.iter().enumerate() { let e = o_cmp(a, b); let g = ::core::cmp::Ord::cmp(a, b); out.check(g == e, "ordlayout_35", "cmp", || format!("cmp({}, {}) = {:?} expected {:?}", show(a), show(b), g, e)); for n in [0u8, 1, 0x7f, 0x80, 0xff] { let wa = wrap(i, n); let wb = wrap(j, !n); let g = ::core::cmp::Ord::cmp(&wa.x, &wb.x); let e = o_cmp(a, b); out.check(g == e, "ordlayout_35", "cmp_neighbours", || format!("cmp({}, {}) with neighbour bytes {} = {:?} expected {:?}", show(a), show(b), n, g, e)); } } } }
