// into_141
#![allow(dead_code, unused_variables, unused_mut, unused_imports, non_shorthand_field_patterns, clippy::all)]
use crate::support::*;
use educe::Educe;
use core::cmp::Ordering;
#[derive(Educe)]
#[educe(Into(B<1>))]
#[educe(Into(B<0>))]
#[educe(Into(B<2>))]
pub enum T { A(#[educe(Into(B<2>, method = m_into))] A<1>, #[educe(Into(B<1>))] #[educe(Into(B<0>))] A<0>), C { builder: A<1>, #[educe(Into(B<2>, method(m_into)))] r#type: A<2>, #[educe(Into(B<1>))] #[educe(Into(B<0>))] y: A<1> } }
pub fn values() -> Vec<T> { vec![T::A(A(1), A(1)), T::A(A(0), A(0)), T::A(A(0), A(7)), T::A(A(7), A(0)), T::A(A(7), A(1)), T::A(A(1), A(0)), T::C { builder: A(0), r#type: A(7), y: A(7) }, T::C { builder: A(7), r#type: A(7), y: A(7) }, T::C { builder: A(0), r#type: A(1), y: A(7) }, T::C { builder: A(7), r#type: A(1), y: A(0) }, T::C { builder: A(1), r#type: A(7), y: A(7) }, T::C { builder: A(0), r#type: A(0), y: A(7) }] }
pub fn show(x: &T) -> String { #[allow(unused_variables)] match x { T::A(p0, p1) => format!("A({},{})", sv(p0), sv(p1)), T::C { builder: p0, r#type: p1, y: p2 } => format!("C({},{},{})", sv(p0), sv(p1), sv(p2)) } }
pub fn o_into_0(x: T) -> B<1> { match x { T::A(_, p1) => ::core::convert::Into::into(p1), T::C { builder: _, r#type: _, y: p2 } => ::core::convert::Into::into(p2) } }
pub fn o_into_1(x: T) -> B<0> { match x { T::A(_, p1) => ::core::convert::Into::into(p1), T::C { builder: _, r#type: _, y: p2 } => ::core::convert::Into::into(p2) } }
pub fn o_into_2(x: T) -> B<2> { match x { T::A(p0, _) => m_into(p0), T::C { builder: _, r#type: p1, y: _ } => m_into(p1) } }
pub fn run(out: &mut Out) { let n = values().len(); for i in 0..n { let a = values().swap_remove(i); let shown = show(&a); let g: B<1> = ::core::convert::Into::into(a); let e = o_into_0(values().swap_remove(i)); out.check(sv(&g) == sv(&e), "into_141", "into", || format!("Into::<B<1>>::into({}) = {} expected {}", shown, sv(&g), sv(&e))); } for i in 0..n { let a = values().swap_remove(i); let shown = show(&a); let g: B<0> = ::core::convert::Into::into(a); let e = o_into_1(values().swap_remove(i)); out.check(sv(&g) == sv(&e), "into_141", "into", || format!("Into::<B<0>>::into({}) = {} expected {}", shown, sv(&g), sv(&e))); } for i in 0..n { let a = values().swap_remove(i); let shown = show(&a); let g: B<2> = ::core::convert::Into::into(a); let e = o_into_2(values().swap_remove(i)); out.check(sv(&g) == sv(&e), "into_141", "into", || format!("Into::<B<2>>::into({}) = {} expected {}", shown, sv(&g), sv(&e))); } }
