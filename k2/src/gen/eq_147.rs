// eq_147
#![allow(dead_code, unused_variables, unused_mut, unused_imports, non_shorthand_field_patterns, clippy::all)]
use crate::support::*;
use educe::Educe;
use core::cmp::Ordering;
#[derive(Educe)]
#[educe(PartialEq)]
pub enum T { A { r#type: A<0>, #[educe(PartialEq(method(m_eq)))] b: A<1> }, V1 }
pub fn values() -> Vec<T> { vec![T::A { r#type: A(0), b: A(0) }, T::A { r#type: A(0), b: A(1) }, T::A { r#type: A(0), b: A(7) }, T::A { r#type: A(1), b: A(0) }, T::A { r#type: A(1), b: A(1) }, T::A { r#type: A(1), b: A(7) }, T::A { r#type: A(7), b: A(0) }, T::A { r#type: A(7), b: A(1) }, T::A { r#type: A(7), b: A(7) }, T::V1] }
pub fn show(x: &T) -> String { #[allow(unused_variables)] match x { T::A { r#type: p0, b: p1 } => format!("A({},{})", sv(p0), sv(p1)), T::V1 => format!("V1()") } }
pub fn o_eq(a: &T, b: &T) -> bool { match (a, b) { (T::A { r#type: a0, b: a1 }, T::A { r#type: b0, b: b1 }) => (a0 == b0) && m_eq(a1, b1), (T::V1, T::V1) => true, _ => false } }
pub fn run(out: &mut Out) { let vs = values(); for a in &vs { for b in &vs { let e = o_eq(a, b); out.check((a == b) == e, "eq_147", "eq", || format!("{} == {} expected {}", show(a), show(b), e)); out.check((a != b) == !e, "eq_147", "ne", || format!("{} != {} expected {}", show(a), show(b), !e)); } } }
