// eq_7
#![allow(dead_code, unused_variables, unused_mut, unused_imports, non_shorthand_field_patterns, clippy::all)]
use crate::support::*;
use educe::Educe;
use core::cmp::Ordering;
#[derive(Educe)]
#[educe(PartialEq)]
pub struct T { #[educe(PartialEq(method(m_eq)))] x: A<0> }
pub fn values() -> Vec<T> { vec![T { x: A(0) }, T { x: A(1) }, T { x: A(7) }] }
pub fn show(x: &T) -> String { #[allow(unused_variables)] match x { T { x: p0 } => format!("T({})", sv(p0)) } }
pub fn o_eq(a: &T, b: &T) -> bool { match (a, b) { (T { x: a0 }, T { x: b0 }) => m_eq(a0, b0) } }
pub fn run(out: &mut Out) { let vs = values(); for a in &vs { for b in &vs { let e = o_eq(a, b); out.check((a == b) == e, "eq_7", "eq", || format!("{} == {} expected {}", show(a), show(b), e)); out.check((a != b) == !e, "eq_7", "ne", || format!("{} != {} expected {}", show(a), show(b), !e)); } } }
