// default_62
#![allow(dead_code, unused_variables, unused_mut, unused_imports, non_shorthand_field_patterns, clippy::all)]
use crate::support::*;
use educe::Educe;
use core::cmp::Ordering;
#[derive(Educe)]
#[educe(Default)]
pub enum T { #[educe(Default)] B {  }, A, Zed { y: i128, builder: i64 }, V1 }
pub fn show(x: &T) -> String { #[allow(unused_variables)] match x { T::B {  } => format!("B()"), T::A => format!("A()"), T::Zed { y: p0, builder: p1 } => format!("Zed({},{})", sv(p0), sv(p1)), T::V1 => format!("V1()") } }
pub fn o_default() -> T { T::B {  } }
pub fn run(out: &mut Out) { let g = <T as ::core::default::Default>::default(); let e = o_default(); out.check(show(&g) == show(&e), "default_62", "default", || format!("default() = {} expected {}", show(&g), show(&e))); }
