// default_73
#![allow(dead_code, unused_variables, unused_mut, unused_imports, non_shorthand_field_patterns, clippy::all)]
use crate::support::*;
use educe::Educe;
use core::cmp::Ordering;
#[derive(Educe)]
#[educe(Default(new))]
pub struct T { #[educe(Default(expr = 1_000))] arg: i64, a: &'static str, source: f32 }
pub fn show(x: &T) -> String { #[allow(unused_variables)] match x { T { arg: p0, a: p1, source: p2 } => format!("T({},{},{})", sv(p0), sv(p1), sv(p2)) } }
pub fn o_default() -> T { T { arg: 1000i64, a: "", source: 0f32 } }
pub fn run(out: &mut Out) { let g = <T as ::core::default::Default>::default(); let e = o_default(); out.check(show(&g) == show(&e), "default_73", "default", || format!("default() = {} expected {}", show(&g), show(&e))); let g = T::new(); let e = o_default(); out.check(show(&g) == show(&e), "default_73", "new", || format!("new() = {} expected {}", show(&g), show(&e))); }
