// eq_6
#![allow(dead_code, unused_variables, unused_mut, unused_imports, non_shorthand_field_patterns, clippy::all)]
use crate::support::*;
use educe::Educe;
use core::cmp::Ordering;
#[derive(Educe)]
#[educe(PartialEq)]
pub enum T { Some {  }, C(A<0>, A<1>, #[educe(PartialEq(method = m_eq))] A<2>), V1 }
pub fn values() -> Vec<T> { vec![T::Some {  }, T::C(A(7), A(0), A(7)), T::C(A(7), A(1), A(0)), T::C(A(7), A(1), A(1)), T::C(A(0), A(1), A(1)), T::C(A(7), A(0), A(1)), T::C(A(7), A(7), A(0)), T::C(A(7), A(7), A(7)), T::C(A(0), A(1), A(7)), T::C(A(0), A(0), A(1)), T::C(A(1), A(0), A(1)), T::C(A(0), A(7), A(1)), T::C(A(0), A(1), A(0)), T::C(A(7), A(7), A(1)), T::C(A(0), A(0), A(0)), T::C(A(1), A(7), A(7)), T::C(A(7), A(1), A(7)), T::V1] }
pub fn show(x: &T) -> String { #[allow(unused_variables)] match x { T::Some {  } => format!("Some()"), T::C(p0, p1, p2) => format!("C({},{},{})", sv(p0), sv(p1), sv(p2)), T::V1 => format!("V1()") } }
pub fn o_eq(a: &T, b: &T) -> bool { match (a, b) { (T::Some {  }, T::Some {  }) => true, (T::C(a0, a1, a2), T::C(b0, b1, b2)) => (a0 == b0) && (a1 == b1) && m_eq(a2, b2), (T::V1, T::V1) => true, _ => false } }
pub fn run(out: &mut Out) { let vs = values(); for a in &vs { for b in &vs { let e = o_eq(a, b); out.check((a == b) == e, "eq_6", "eq", || format!("{} == {} expected {}", show(a), show(b), e)); out.check((a != b) == !e, "eq_6", "ne", || format!("{} != {} expected {}", show(a), show(b), !e)); } } }
