// eq_6
#![allow(dead_code, unused_variables, unused_mut, unused_imports, non_shorthand_field_patterns, clippy::all)]
use crate::support::*;
use educe::Educe;
use core::cmp::Ordering;
#[derive(Educe)]
#[educe(PartialEq)]
#[educe(Eq)]
pub enum T { B {  }, C, Unit(A<0>, #[educe(PartialEq(ignore(true)))] A<0>, A<0>) }
pub fn values() -> Vec<T> { vec![T::B {  }, T::C, T::Unit(A(0), A(1), A(1)), T::Unit(A(0), A(0), A(1)), T::Unit(A(7), A(0), A(1)), T::Unit(A(7), A(1), A(7)), T::Unit(A(0), A(7), A(0)), T::Unit(A(7), A(1), A(0)), T::Unit(A(1), A(0), A(1)), T::Unit(A(7), A(7), A(1)), T::Unit(A(1), A(7), A(0)), T::Unit(A(0), A(1), A(7)), T::Unit(A(7), A(1), A(1)), T::Unit(A(0), A(0), A(7)), T::Unit(A(0), A(7), A(7)), T::Unit(A(1), A(1), A(7)), T::Unit(A(1), A(0), A(0)), T::Unit(A(0), A(1), A(0))] }
pub fn show(x: &T) -> String { #[allow(unused_variables)] match x { T::B {  } => format!("B()"), T::C => format!("C()"), T::Unit(p0, p1, p2) => format!("Unit({},{},{})", sv(p0), sv(p1), sv(p2)) } }
pub fn o_eq(a: &T, b: &T) -> bool { match (a, b) { (T::B {  }, T::B {  }) => true, (T::C, T::C) => true, (T::Unit(a0, a1, a2), T::Unit(b0, b1, b2)) => (a0 == b0) && (a2 == b2), _ => false } }
pub fn run(out: &mut Out) { let vs = values(); for a in &vs { for b in &vs { let e = o_eq(a, b); out.check((a == b) == e, "eq_6", "eq", || format!("{} == {} expected {}", show(a), show(b), e)); out.check((a != b) == !e, "eq_6", "ne", || format!("{} != {} expected {}", show(a), show(b), !e)); } } }
