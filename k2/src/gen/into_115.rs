// into_115
#![allow(dead_code, unused_variables, unused_mut, unused_imports, non_shorthand_field_patterns, clippy::all)]
use crate::support::*;
use educe::Educe;
use core::cmp::Ordering;
#[derive(Educe)]
#[educe(Into(B<2>), Into(B<0>))]
pub struct T { size: A<2>, #[educe(Into(B<2>))] #[educe(Into(B<0>))] other: A<0> }
pub fn values() -> Vec<T> { vec![T { size: A(0), other: A(0) }, T { size: A(0), other: A(1) }, T { size: A(0), other: A(7) }, T { size: A(1), other: A(0) }, T { size: A(1), other: A(1) }, T { size: A(1), other: A(7) }, T { size: A(7), other: A(0) }, T { size: A(7), other: A(1) }, T { size: A(7), other: A(7) }] }
pub fn show(x: &T) -> String { #[allow(unused_variables)] match x { T { size: p0, other: p1 } => format!("T({},{})", sv(p0), sv(p1)) } }
pub fn o_into_0(x: T) -> B<2> { match x { T { size: _, other: p1 } => ::core::convert::Into::into(p1) } }
pub fn o_into_1(x: T) -> B<0> { match x { T { size: _, other: p1 } => ::core::convert::Into::into(p1) } }
pub fn run(out: &mut Out) { let n = values().len(); for i in 0..n { let a = values().swap_remove(i); let shown = show(&a); let g: B<2> = ::core::convert::Into::into(a); let e = o_into_0(values().swap_remove(i)); out.check(sv(&g) == sv(&e), "into_115", "into", || format!("Into::<B<2>>::into({}) = {} expected {}", shown, sv(&g), sv(&e))); } for i in 0..n { let a = values().swap_remove(i); let shown = show(&a); let g: B<0> = ::core::convert::Into::into(a); let e = o_into_1(values().swap_remove(i)); out.check(sv(&g) == sv(&e), "into_115", "into", || format!("Into::<B<0>>::into({}) = {} expected {}", shown, sv(&g), sv(&e))); } }
