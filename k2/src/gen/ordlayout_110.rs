// ordlayout_110
#![allow(dead_code, unused_variables, unused_mut, unused_imports, non_shorthand_field_patterns, clippy::all)]
use crate::support::*;
use educe::Educe;
use core::cmp::Ordering;
#[derive(Educe)]
#[educe(PartialEq, Eq, Ord)]
pub enum T { Unit, Some(char), V1 { builder: &'static u8 }, Zed { arg: () } }
impl PartialOrd for T { fn partial_cmp(&self, o: &Self) -> Option<Ordering> { Some(::core::cmp::Ord::cmp(self, o)) } }
pub fn values() -> Vec<T> { vec![T::Unit, T::Some('a'), T::Some('z'), T::V1 { builder: &3u8 }, T::V1 { builder: &200u8 }, T::Zed { arg: () }] }
pub fn show(x: &T) -> String { #[allow(unused_variables)] match x { T::Unit => format!("Unit()"), T::Some(p0) => format!("Some({})", sv(p0)), T::V1 { builder: p0 } => format!("V1({})", sv(p0)), T::Zed { arg: p0 } => format!("Zed({})", sv(p0)) } }
pub fn o_disc(x: &T) -> i128 { match x { T::Unit => 0, T::Some(_) => 1, T::V1 { builder: _ } => 2, T::Zed { arg: _ } => 3 } }
pub fn o_cmp(a: &T, b: &T) -> Ordering { match (a, b) { (T::Unit, T::Unit) => {  Ordering::Equal }, (T::Some(a0), T::Some(b0)) => { let c = ::core::cmp::Ord::cmp(a0, b0); if c != Ordering::Equal { return c; } Ordering::Equal }, (T::V1 { builder: a0 }, T::V1 { builder: b0 }) => { let c = ::core::cmp::Ord::cmp(a0, b0); if c != Ordering::Equal { return c; } Ordering::Equal }, (T::Zed { arg: a0 }, T::Zed { arg: b0 }) => { let c = ::core::cmp::Ord::cmp(a0, b0); if c != Ordering::Equal { return c; } Ordering::Equal }, _ => o_disc(a).cmp(&o_disc(b)) } }
#[repr(C)] pub struct Wrap { pub pre: u8, pub x: T, pub post: [u8; 9] }
pub fn wrap(i: usize, n: u8) -> Wrap { Wrap { pre: n, x: values().swap_remove(i), post: [n; 9] } }
pub fn run(out: &mut Out) { let vs = values(); for (i, a) in vs.iter().enumerate() { for (j, b) in vs.iter().enumerate() { let e = o_cmp(a, b); let g = ::core::cmp::Ord::cmp(a, b); out.check(g == e, "ordlayout_110", "cmp", || format!("cmp({}, {}) = {:?} expected {:?}", show(a), show(b), g, e)); for n in [0u8, 1, 0x7f, 0x80, 0xff] { let wa = wrap(i, n); let wb = wrap(j, !n); let g = ::core::cmp::Ord::cmp(&wa.x, &wb.x); let e = o_cmp(a, b); out.check(g == e, "ordlayout_110", "cmp_neighbours", || format!("cmp({}, {}) with neighbour bytes {} = {:?} expected {:?}", show(a), show(b), n, g, e)); } } } }
