// default_3
#![allow(dead_code, unused_variables, unused_mut, unused_imports, non_shorthand_field_patterns, clippy::all)]
use crate::support::*;
use educe::Educe;
use core::cmp::Ordering;
#[derive(Educe)]
#[educe(Default)]
pub enum T { B { r#type: A<0>, a: String }, Zed, Some, #[educe(Default)] C }
pub fn show(x: &T) -> String { #[allow(unused_variables)] match x { T::B { r#type: p0, a: p1 } => format!("B({},{})", sv(p0), sv(p1)), T::Zed => format!("Zed()"), T::Some => format!("Some()"), T::C => format!("C()") } }
pub fn o_default() -> T { T::C }
pub fn run(out: &mut Out) { let g = <T as ::core::default::Default>::default(); let e = o_default(); out.check(show(&g) == show(&e), "default_3", "default", || format!("default() = {} expected {}", show(&g), show(&e))); }
