// default_97
#![allow(dead_code, unused_variables, unused_mut, unused_imports, non_shorthand_field_patterns, clippy::all)]
use crate::support::*;
use educe::Educe;
use core::cmp::Ordering;
#[derive(Educe)]
#[educe(Default)]
pub enum T { #[educe(Default)] B, Some { c: String, data: bool, _0: f64 }, Unit, None(char, f64) }
pub fn show(x: &T) -> String { #[allow(unused_variables)] match x { T::B => format!("B()"), T::Some { c: p0, data: p1, _0: p2 } => format!("Some({},{},{})", sv(p0), sv(p1), sv(p2)), T::Unit => format!("Unit()"), T::None(p0, p1) => format!("None({},{})", sv(p0), sv(p1)) } }
pub fn o_default() -> T { T::B }
pub fn run(out: &mut Out) { let g = <T as ::core::default::Default>::default(); let e = o_default(); out.check(show(&g) == show(&e), "default_97", "default", || format!("default() = {} expected {}", show(&g), show(&e))); }
