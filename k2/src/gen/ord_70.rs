// ord_70
#![allow(dead_code, unused_variables, unused_mut, unused_imports, non_shorthand_field_patterns, clippy::all)]
use crate::support::*;
use core::cmp::Ordering;
pub mod ty {
    #![deny(warnings)]
    #![allow(dead_code, unused_imports, non_snake_case)]
    use crate::support::{A, B, C, Good, Bad, m_eq, m_cmp, m_pcmp, m_hash, m_fmt, m_clone, m_clone_c, m_into, g_eq, g_cmp, g_pcmp, g_hash, g_fmt};
    use educe::Educe;
#[derive(Educe)]
#[educe(Debug)]
#[educe(PartialEq, Ord, Eq)]
pub struct T { #[educe(Debug(ignore = true), Ord(rank(5)))] pub other_data: A<0>, #[educe(Debug(name = zz7), Ord(method = "m_cmp"))] pub source: A<0>, #[educe(Debug(ignore = true))] pub state: A<2> }
}
pub use ty::T;
impl PartialOrd for T { fn partial_cmp(&self, o: &Self) -> Option<Ordering> { Some(::core::cmp::Ord::cmp(self, o)) } }
pub fn values() -> Vec<T> { vec![T { other_data: A(0), source: A(0), state: A(0) }, T { other_data: A(0), source: A(0), state: A(1) }, T { other_data: A(0), source: A(0), state: A(7) }, T { other_data: A(0), source: A(1), state: A(0) }, T { other_data: A(0), source: A(1), state: A(1) }, T { other_data: A(0), source: A(1), state: A(7) }, T { other_data: A(0), source: A(7), state: A(0) }, T { other_data: A(0), source: A(7), state: A(1) }, T { other_data: A(0), source: A(7), state: A(7) }, T { other_data: A(1), source: A(0), state: A(0) }, T { other_data: A(1), source: A(0), state: A(1) }, T { other_data: A(1), source: A(0), state: A(7) }, T { other_data: A(1), source: A(1), state: A(0) }, T { other_data: A(1), source: A(1), state: A(1) }, T { other_data: A(1), source: A(1), state: A(7) }, T { other_data: A(1), source: A(7), state: A(0) }, T { other_data: A(1), source: A(7), state: A(1) }, T { other_data: A(1), source: A(7), state: A(7) }, T { other_data: A(7), source: A(0), state: A(0) }, T { other_data: A(7), source: A(0), state: A(1) }, T { other_data: A(7), source: A(0), state: A(7) }, T { other_data: A(7), source: A(1), state: A(0) }, T { other_data: A(7), source: A(1), state: A(1) }, T { other_data: A(7), source: A(1), state: A(7) }, T { other_data: A(7), source: A(7), state: A(0) }, T { other_data: A(7), source: A(7), state: A(1) }, T { other_data: A(7), source: A(7), state: A(7) }] }
pub fn show(x: &T) -> String { #[allow(unused_variables)] match x { T { other_data: p0, source: p1, state: p2 } => format!("T({},{},{})", sv(p0), sv(p1), sv(p2)) } }
pub fn o_disc(x: &T) -> i128 { match x { T { other_data: _, source: _, state: _ } => 0 } }
pub fn o_cmp(a: &T, b: &T) -> Ordering { match (a, b) { (T { other_data: a0, source: a1, state: a2 }, T { other_data: b0, source: b1, state: b2 }) => { let c = m_cmp(a1, b1); if c != Ordering::Equal { return c; } let c = ::core::cmp::Ord::cmp(a2, b2); if c != Ordering::Equal { return c; } let c = ::core::cmp::Ord::cmp(a0, b0); if c != Ordering::Equal { return c; } Ordering::Equal } } }
pub fn run(out: &mut Out) { let vs = values(); for (i, a) in vs.iter().enumerate() { for (j, b) in vs.iter().enumerate() { let e = o_cmp(a, b); let g = ::core::cmp::Ord::cmp(a, b); out.check(g == e, "ord_70", "cmp", || format!("cmp({}, {}) = {:?} expected {:?}", show(a), show(b), g, e)); } } }
