// into_64
#![allow(dead_code, unused_variables, unused_mut, unused_imports, non_shorthand_field_patterns, clippy::all)]
use crate::support::*;
use educe::Educe;
use core::cmp::Ordering;
#[derive(Educe)]
#[educe(Into(B<2>))]
pub enum T { Zed(A<0>, #[educe(Into(B<2>, method(m_into)))] A<2>, A<0>), Some { size: A<0>, #[educe(Into(B<2>, method = m_into))] r#type: A<0> }, None(#[educe(Into(B<2>))] A<1>, A<3>) }
pub fn values() -> Vec<T> { vec![T::Zed(A(7), A(0), A(0)), T::Zed(A(7), A(7), A(7)), T::Zed(A(1), A(1), A(0)), T::Zed(A(0), A(1), A(1)), T::Some { size: A(7), r#type: A(0) }, T::Some { size: A(7), r#type: A(7) }, T::Some { size: A(0), r#type: A(0) }, T::Some { size: A(1), r#type: A(1) }, T::None(A(1), A(0)), T::None(A(0), A(7)), T::None(A(7), A(1)), T::None(A(1), A(7))] }
pub fn show(x: &T) -> String { #[allow(unused_variables)] match x { T::Zed(p0, p1, p2) => format!("Zed({},{},{})", sv(p0), sv(p1), sv(p2)), T::Some { size: p0, r#type: p1 } => format!("Some({},{})", sv(p0), sv(p1)), T::None(p0, p1) => format!("None({},{})", sv(p0), sv(p1)) } }
pub fn o_into_0(x: T) -> B<2> { match x { T::Zed(_, p1, _) => m_into(p1), T::Some { size: _, r#type: p1 } => m_into(p1), T::None(p0, _) => ::core::convert::Into::into(p0) } }
pub fn run(out: &mut Out) { let n = values().len(); for i in 0..n { let a = values().swap_remove(i); let shown = show(&a); let g: B<2> = ::core::convert::Into::into(a); let e = o_into_0(values().swap_remove(i)); out.check(sv(&g) == sv(&e), "into_64", "into", || format!("Into::<B<2>>::into({}) = {} expected {}", shown, sv(&g), sv(&e))); } }
