// default_74
#![allow(dead_code, unused_variables, unused_mut, unused_imports, non_shorthand_field_patterns, clippy::all)]
use crate::support::*;
use educe::Educe;
use core::cmp::Ordering;
#[derive(Educe)]
#[educe(Default)]
pub enum T { V1, #[educe(Default)] Unit { #[educe(Default(expr = "hi"))] _0: String, b: i128, #[educe(Default(expr = 77))] r#type: i128, #[educe(Default(expression = 12))] builder: i64 }, Zed {  }, None { source: &'static str, y: bool, a: u64 } }
pub fn show(x: &T) -> String { #[allow(unused_variables)] match x { T::V1 => format!("V1()"), T::Unit { _0: p0, b: p1, r#type: p2, builder: p3 } => format!("Unit({},{},{},{})", sv(p0), sv(p1), sv(p2), sv(p3)), T::Zed {  } => format!("Zed()"), T::None { source: p0, y: p1, a: p2 } => format!("None({},{},{})", sv(p0), sv(p1), sv(p2)) } }
pub fn o_default() -> T { T::Unit { _0: String::from("hi"), b: 0i128, r#type: 77i128, builder: 12i64 } }
pub fn run(out: &mut Out) { let g = <T as ::core::default::Default>::default(); let e = o_default(); out.check(show(&g) == show(&e), "default_74", "default", || format!("default() = {} expected {}", show(&g), show(&e))); }
