// clone_65
#![allow(dead_code, unused_variables, unused_mut, unused_imports, non_shorthand_field_patterns, clippy::all)]
use crate::support::*;
use educe::Educe;
use core::cmp::Ordering;
#[derive(Educe)]
#[educe(Clone)]
pub struct T { f: A<0>, x: A<1>, builder: A<2> }
pub fn values() -> Vec<T> { vec![T { f: A(7), x: A(7), builder: A(0) }, T { f: A(1), x: A(1), builder: A(0) }, T { f: A(7), x: A(7), builder: A(7) }, T { f: A(0), x: A(0), builder: A(1) }, T { f: A(0), x: A(0), builder: A(0) }, T { f: A(1), x: A(7), builder: A(7) }, T { f: A(0), x: A(7), builder: A(0) }, T { f: A(7), x: A(1), builder: A(1) }, T { f: A(1), x: A(7), builder: A(1) }, T { f: A(0), x: A(1), builder: A(0) }, T { f: A(0), x: A(1), builder: A(7) }, T { f: A(1), x: A(1), builder: A(7) }, T { f: A(0), x: A(7), builder: A(1) }, T { f: A(0), x: A(7), builder: A(7) }, T { f: A(7), x: A(1), builder: A(0) }, T { f: A(1), x: A(0), builder: A(7) }, T { f: A(1), x: A(7), builder: A(0) }, T { f: A(1), x: A(0), builder: A(0) }, T { f: A(7), x: A(0), builder: A(1) }, T { f: A(7), x: A(0), builder: A(7) }] }
pub fn show(x: &T) -> String { #[allow(unused_variables)] match x { T { f: p0, x: p1, builder: p2 } => format!("T({},{},{})", sv(p0), sv(p1), sv(p2)) } }
pub fn o_clone(x: &T) -> T { match x { T { f: p0, x: p1, builder: p2 } => T { f: A(p0.0), x: A(p1.0), builder: A(p2.0) } } }
pub fn o_log(x: &T) -> Vec<String> { match x { T { f: p0, x: p1, builder: p2 } => vec![format!("clone A{} {}", p0.k(), p0.0), format!("clone A{} {}", p1.k(), p1.0), format!("clone A{} {}", p2.k(), p2.0)] } }
pub fn run(out: &mut Out) { let vs = values(); for a in &vs { let _ = take_log(); let g = ::core::clone::Clone::clone(a); let l = take_log(); let e = o_clone(a); out.check(show(&g) == show(&e), "clone_65", "clone", || format!("clone({}) = {} expected {}", show(a), show(&g), show(&e))); let el = o_log(a); out.check(l == el, "clone_65", "clone_calls", || format!("clone({}) called {:?} expected {:?}", show(a), l, el)); } let n = vs.len(); for i in 0..n { for j in 0..n { let mut x = values().swap_remove(i); let shown = show(&x); ::core::clone::Clone::clone_from(&mut x, &vs[j]); let e = o_clone(&vs[j]); out.check(show(&x) == show(&e), "clone_65", "clone_from", || format!("{}.clone_from({}) = {} expected {}", shown, show(&vs[j]), show(&x), show(&e))); } } }
