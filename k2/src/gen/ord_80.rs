// ord_80
#![allow(dead_code, unused_variables, unused_mut, unused_imports, non_shorthand_field_patterns, clippy::all)]
use crate::support::*;
use educe::Educe;
use core::cmp::Ordering;
#[derive(Educe)]
#[repr(i64)]
#[educe(PartialEq, Eq, Ord, PartialOrd)]
pub enum T { B { #[educe(Ord(ignore = true))] r#type: A<0>, #[educe(Ord = false)] state: A<1> }, None { #[educe(Ord(rank = 0x3))] b: A<0> } = 127 }

pub fn values() -> Vec<T> { vec![T::B { r#type: A(0), state: A(0) }, T::B { r#type: A(0), state: A(1) }, T::B { r#type: A(0), state: A(7) }, T::B { r#type: A(1), state: A(0) }, T::B { r#type: A(1), state: A(1) }, T::B { r#type: A(1), state: A(7) }, T::B { r#type: A(7), state: A(0) }, T::B { r#type: A(7), state: A(1) }, T::B { r#type: A(7), state: A(7) }, T::None { b: A(0) }, T::None { b: A(1) }, T::None { b: A(7) }] }
pub fn show(x: &T) -> String { #[allow(unused_variables)] match x { T::B { r#type: p0, state: p1 } => format!("B({},{})", sv(p0), sv(p1)), T::None { b: p0 } => format!("None({})", sv(p0)) } }
pub fn o_disc(x: &T) -> i128 { match x { T::B { r#type: _, state: _ } => 0, T::None { b: _ } => 127 } }
pub fn o_cmp(a: &T, b: &T) -> Ordering { match (a, b) { (T::B { r#type: a0, state: a1 }, T::B { r#type: b0, state: b1 }) => {  Ordering::Equal }, (T::None { b: a0 }, T::None { b: b0 }) => { let c = ::core::cmp::Ord::cmp(a0, b0); if c != Ordering::Equal { return c; } Ordering::Equal }, _ => o_disc(a).cmp(&o_disc(b)) } }
pub fn run(out: &mut Out) { let vs = values(); for (i, a) in vs.iter().enumerate() { for (j, b) in vs.iter().enumerate() { let e = o_cmp(a, b); let g = ::core::cmp::Ord::cmp(a, b); out.check(g == e, "ord_80", "cmp", || format!("cmp({}, {}) = {:?} expected {:?}", show(a), show(b), g, e)); let g2 = ::core::cmp::PartialOrd::partial_cmp(a, b); out.check(g2 == Some(e), "ord_80", "partial_is_some_cmp", || format!("partial_cmp({}, {}) = {:?} expected Some({:?})", show(a), show(b), g2, e)); } } }
