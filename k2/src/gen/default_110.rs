// default_110
#![allow(dead_code, unused_variables, unused_mut, unused_imports, non_shorthand_field_patterns, clippy::all)]
use crate::support::*;
use educe::Educe;
use core::cmp::Ordering;
#[derive(Educe)]
#[educe(Default(new))]
pub enum T { B(#[educe(Default = 1_000)] i64, f32) }
pub fn show(x: &T) -> String { #[allow(unused_variables)] match x { T::B(p0, p1) => format!("B({},{})", sv(p0), sv(p1)) } }
pub fn o_default() -> T { T::B(1000i64, 0f32) }
pub fn run(out: &mut Out) { let g = <T as ::core::default::Default>::default(); let e = o_default(); out.check(show(&g) == show(&e), "default_110", "default", || format!("default() = {} expected {}", show(&g), show(&e))); let g = T::new(); let e = o_default(); out.check(show(&g) == show(&e), "default_110", "new", || format!("new() = {} expected {}", show(&g), show(&e))); }
