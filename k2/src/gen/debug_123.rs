// debug_123
#![allow(dead_code, unused_variables, unused_mut, unused_imports, non_shorthand_field_patterns, clippy::all)]
use crate::support::*;
use educe::Educe;
use core::cmp::Ordering;
#[derive(Educe)]
#[educe(Debug(name = true))]
pub enum T { #[educe(Debug(named_field(true)))] Unit(#[educe(Debug(ignore = true))] A<0>), #[educe(Debug(name = "Ren"))] Some }
pub fn values() -> Vec<T> { vec![T::Unit(A(0)), T::Unit(A(1)), T::Unit(A(7)), T::Some] }
pub fn show(x: &T) -> String { #[allow(unused_variables)] match x { T::Unit(p0) => format!("Unit({})", sv(p0)), T::Some => format!("Some()") } }
pub fn o_fmt(x: &T, f: &mut ::core::fmt::Formatter<'_>) -> ::core::fmt::Result { match x { T::Unit(p0) => f.debug_struct("T::Unit").finish(), T::Some => f.write_str("T::Ren") } }

pub fn run(out: &mut Out) { let vs = values(); for a in &vs { let g = format!("{:?}", a); let e = format!("{:?}", Fm(|f: &mut ::core::fmt::Formatter<'_>| o_fmt(a, f))); out.check(g == e, "debug_123", "debug", || format!("{{:?}} of {} = {:?} expected {:?}", show(a), g, e)); let g = format!("{:#?}", a); let e = format!("{:#?}", Fm(|f: &mut ::core::fmt::Formatter<'_>| o_fmt(a, f))); out.check(g == e, "debug_123", "debug_alt", || format!("{{:#?}} of {} = {:?} expected {:?}", show(a), g, e)); let g = format!("{:8?}", a); let e = format!("{:8?}", Fm(|f: &mut ::core::fmt::Formatter<'_>| o_fmt(a, f))); out.check(g == e, "debug_123", "debug_width", || format!("{{:8?}} of {} = {:?} expected {:?}", show(a), g, e)); }  }
