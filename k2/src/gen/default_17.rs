// default_17
#![allow(dead_code, unused_variables, unused_mut, unused_imports, non_shorthand_field_patterns, clippy::all)]
use crate::support::*;
use educe::Educe;
use core::cmp::Ordering;
#[derive(Educe)]
#[educe(Default)]
pub enum T { A(char, A<0>, A<0>, bool), #[educe(Default)] C(Option<u8>) }
pub fn show(x: &T) -> String { #[allow(unused_variables)] match x { T::A(p0, p1, p2, p3) => format!("A({},{},{},{})", sv(p0), sv(p1), sv(p2), sv(p3)), T::C(p0) => format!("C({})", sv(p0)) } }
pub fn o_default() -> T { T::C(None) }
pub fn run(out: &mut Out) { let g = <T as ::core::default::Default>::default(); let e = o_default(); out.check(show(&g) == show(&e), "default_17", "default", || format!("default() = {} expected {}", show(&g), show(&e))); }
