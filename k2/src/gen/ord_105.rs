// ord_105
#![allow(dead_code, unused_variables, unused_mut, unused_imports, non_shorthand_field_patterns, clippy::all)]
use crate::support::*;
use educe::Educe;
use core::cmp::Ordering;
#[derive(Educe)]
#[repr(i64)]
#[educe(Ord, PartialOrd, Eq, PartialEq)]
pub enum T { Unit(#[educe(PartialOrd = false)] A<0>, A<1>) = 70000, Some = 100, V1(#[educe(PartialOrd(method(m_cmp)))] A<0>, #[educe(PartialOrd(rank = "+0"))] A<1>, A<0>, #[educe(PartialOrd(rank("-2")))] A<3>) = 2 }

pub fn values() -> Vec<T> { vec![T::Unit(A(0), A(0)), T::Unit(A(0), A(1)), T::Unit(A(0), A(7)), T::Unit(A(1), A(0)), T::Unit(A(1), A(1)), T::Unit(A(1), A(7)), T::Unit(A(7), A(0)), T::Unit(A(7), A(1)), T::Unit(A(7), A(7)), T::Some, T::V1(A(1), A(1), A(0), A(1)), T::V1(A(7), A(1), A(0), A(1)), T::V1(A(0), A(7), A(0), A(7)), T::V1(A(1), A(7), A(1), A(1)), T::V1(A(7), A(7), A(1), A(7)), T::V1(A(0), A(7), A(7), A(0)), T::V1(A(7), A(1), A(1), A(1)), T::V1(A(0), A(7), A(7), A(7)), T::V1(A(7), A(7), A(7), A(0)), T::V1(A(7), A(0), A(0), A(1)), T::V1(A(7), A(1), A(0), A(7)), T::V1(A(0), A(0), A(0), A(0))] }
pub fn show(x: &T) -> String { #[allow(unused_variables)] match x { T::Unit(p0, p1) => format!("Unit({},{})", sv(p0), sv(p1)), T::Some => format!("Some()"), T::V1(p0, p1, p2, p3) => format!("V1({},{},{},{})", sv(p0), sv(p1), sv(p2), sv(p3)) } }
pub fn o_disc(x: &T) -> i128 { match x { T::Unit(_, _) => 70000, T::Some => 100, T::V1(_, _, _, _) => 2 } }
pub fn o_cmp(a: &T, b: &T) -> Ordering { match (a, b) { (T::Unit(a0, a1), T::Unit(b0, b1)) => { let c = ::core::cmp::Ord::cmp(a1, b1); if c != Ordering::Equal { return c; } Ordering::Equal }, (T::Some, T::Some) => {  Ordering::Equal }, (T::V1(a0, a1, a2, a3), T::V1(b0, b1, b2, b3)) => { let c = m_cmp(a0, b0); if c != Ordering::Equal { return c; } let c = ::core::cmp::Ord::cmp(a2, b2); if c != Ordering::Equal { return c; } let c = ::core::cmp::Ord::cmp(a3, b3); if c != Ordering::Equal { return c; } let c = ::core::cmp::Ord::cmp(a1, b1); if c != Ordering::Equal { return c; } Ordering::Equal }, _ => o_disc(a).cmp(&o_disc(b)) } }
pub fn run(out: &mut Out) { let vs = values(); for (i, a) in vs.iter().enumerate() { for (j, b) in vs.iter().enumerate() { let e = o_cmp(a, b); let g = ::core::cmp::Ord::cmp(a, b); out.check(g == e, "ord_105", "cmp", || format!("cmp({}, {}) = {:?} expected {:?}", show(a), show(b), g, e)); let g2 = ::core::cmp::PartialOrd::partial_cmp(a, b); out.check(g2 == Some(e), "ord_105", "partial_is_some_cmp", || format!("partial_cmp({}, {}) = {:?} expected Some({:?})", show(a), show(b), g2, e)); } } }
