// debug_13
#![allow(dead_code, unused_variables, unused_mut, unused_imports, non_shorthand_field_patterns, clippy::all)]
use crate::support::*;
use educe::Educe;
use core::cmp::Ordering;
#[derive(Educe)]
#[educe(Debug(name(Zz)))]
pub struct T;
pub fn values() -> Vec<T> { vec![T] }
pub fn show(x: &T) -> String { #[allow(unused_variables)] match x { T => format!("T()") } }
pub fn o_fmt(x: &T, f: &mut ::core::fmt::Formatter<'_>) -> ::core::fmt::Result { match x { T => f.debug_struct("Zz").finish() } }

pub fn run(out: &mut Out) { let vs = values(); for a in &vs { let g = format!("{:?}", a); let e = format!("{:?}", Fm(|f: &mut ::core::fmt::Formatter<'_>| o_fmt(a, f))); out.check(g == e, "debug_13", "debug", || format!("{{:?}} of {} = {:?} expected {:?}", show(a), g, e)); let g = format!("{:#?}", a); let e = format!("{:#?}", Fm(|f: &mut ::core::fmt::Formatter<'_>| o_fmt(a, f))); out.check(g == e, "debug_13", "debug_alt", || format!("{{:#?}} of {} = {:?} expected {:?}", show(a), g, e)); let g = format!("{:8?}", a); let e = format!("{:8?}", Fm(|f: &mut ::core::fmt::Formatter<'_>| o_fmt(a, f))); out.check(g == e, "debug_13", "debug_width", || format!("{{:8?}} of {} = {:?} expected {:?}", show(a), g, e)); }  }
