// default_147
#![allow(dead_code, unused_variables, unused_mut, unused_imports, non_shorthand_field_patterns, clippy::all)]
use crate::support::*;
use educe::Educe;
use core::cmp::Ordering;
#[derive(Educe)]
#[educe(Default)]
pub enum T { B(u8, u8), #[educe(Default)] None(A<0>, #[educe(Default(expression = 77))] i128, #[educe(Default = 77)] i128), Unit(A<3>) }
pub fn show(x: &T) -> String { #[allow(unused_variables)] match x { T::B(p0, p1) => format!("B({},{})", sv(p0), sv(p1)), T::None(p0, p1, p2) => format!("None({},{},{})", sv(p0), sv(p1), sv(p2)), T::Unit(p0) => format!("Unit({})", sv(p0)) } }
pub fn o_default() -> T { T::None(A(40), 77i128, 77i128) }
pub fn run(out: &mut Out) { let g = <T as ::core::default::Default>::default(); let e = o_default(); out.check(show(&g) == show(&e), "default_147", "default", || format!("default() = {} expected {}", show(&g), show(&e))); }
