// deref_63
#![allow(dead_code, unused_variables, unused_mut, unused_imports, non_shorthand_field_patterns, clippy::all)]
use crate::support::*;
use educe::Educe;
use core::cmp::Ordering;
#[derive(Educe)]
#[educe(Deref)]
pub enum T { V1 { arg: A<2>, builder: A<1>, #[educe(Deref)] y: A<1>, b: A<1> }, Some { _0: A<1> } }
pub fn values() -> Vec<T> { vec![T::V1 { arg: A(0), builder: A(7), y: A(1), b: A(7) }, T::V1 { arg: A(1), builder: A(0), y: A(1), b: A(1) }, T::V1 { arg: A(1), builder: A(7), y: A(0), b: A(7) }, T::V1 { arg: A(1), builder: A(7), y: A(7), b: A(1) }, T::V1 { arg: A(0), builder: A(1), y: A(7), b: A(0) }, T::V1 { arg: A(1), builder: A(1), y: A(7), b: A(0) }, T::V1 { arg: A(0), builder: A(0), y: A(7), b: A(1) }, T::V1 { arg: A(1), builder: A(7), y: A(7), b: A(0) }, T::Some { _0: A(0) }, T::Some { _0: A(1) }, T::Some { _0: A(7) }] }
pub fn show(x: &T) -> String { #[allow(unused_variables)] match x { T::V1 { arg: p0, builder: p1, y: p2, b: p3 } => format!("V1({},{},{},{})", sv(p0), sv(p1), sv(p2), sv(p3)), T::Some { _0: p0 } => format!("Some({})", sv(p0)) } }
pub fn o_deref(x: &T) -> *const A<1> { match x { T::V1 { arg: _, builder: _, y: p2, b: _ } => p2 as *const A<1>, T::Some { _0: p0 } => p0 as *const A<1> } }
pub fn run(out: &mut Out) { let vs = values(); for a in &vs { let g = ::core::ops::Deref::deref(a) as *const A<1>; let e = o_deref(a); out.check(g == e, "deref_63", "deref", || format!("&*{} has another address than the designated field", show(a))); } }
