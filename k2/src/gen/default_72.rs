// default_72
#![allow(dead_code, unused_variables, unused_mut, unused_imports, non_shorthand_field_patterns, clippy::all)]
use crate::support::*;
use educe::Educe;
use core::cmp::Ordering;
#[derive(Educe)]
#[educe(Default(expr(T::V1(false, '\0'))))]
pub enum T { Unit, C(&'static str, A<0>), V1(bool, char), None }
pub fn show(x: &T) -> String { #[allow(unused_variables)] match x { T::Unit => format!("Unit()"), T::C(p0, p1) => format!("C({},{})", sv(p0), sv(p1)), T::V1(p0, p1) => format!("V1({},{})", sv(p0), sv(p1)), T::None => format!("None()") } }
pub fn o_default() -> T { T::V1(false, '\0') }
pub fn run(out: &mut Out) { let g = <T as ::core::default::Default>::default(); let e = o_default(); out.check(show(&g) == show(&e), "default_72", "default", || format!("default() = {} expected {}", show(&g), show(&e))); }
