// default_140
#![allow(dead_code, unused_variables, unused_mut, unused_imports, non_shorthand_field_patterns, clippy::all)]
use crate::support::*;
use educe::Educe;
use core::cmp::Ordering;
#[derive(Educe)]
#[educe(Default)]
pub enum T { C { data: u16, size: u16, arg: f64, b: String }, #[educe(Default)] None, V1(A<0>, Option<u8>, bool, Option<u8>) }
pub fn show(x: &T) -> String { #[allow(unused_variables)] match x { T::C { data: p0, size: p1, arg: p2, b: p3 } => format!("C({},{},{},{})", sv(p0), sv(p1), sv(p2), sv(p3)), T::None => format!("None()"), T::V1(p0, p1, p2, p3) => format!("V1({},{},{},{})", sv(p0), sv(p1), sv(p2), sv(p3)) } }
pub fn o_default() -> T { T::None }
pub fn run(out: &mut Out) { let g = <T as ::core::default::Default>::default(); let e = o_default(); out.check(show(&g) == show(&e), "default_140", "default", || format!("default() = {} expected {}", show(&g), show(&e))); }
