// ordlayout_4
#![allow(dead_code, unused_variables, unused_mut, unused_imports, non_shorthand_field_patterns, clippy::all)]
use crate::support::*;
use educe::Educe;
use core::cmp::Ordering;
#[derive(Educe)]
#[repr(i64)]
#[educe(Ord, PartialEq, PartialOrd, Eq)]
pub enum T { B(i64, Option<u8>) = 70000, A { #[educe(PartialOrd(rank = "-1"))] state: &'static u8, builder: i64 } }

pub fn values() -> Vec<T> { vec![T::B(-5, None), T::B(-5, Some(0)), T::B(-5, Some(255)), T::B(0, None), T::B(0, Some(0)), T::B(0, Some(255)), T::B(9, None), T::B(9, Some(0)), T::B(9, Some(255)), T::A { state: &3u8, builder: -5 }, T::A { state: &3u8, builder: 0 }, T::A { state: &3u8, builder: 9 }, T::A { state: &200u8, builder: -5 }, T::A { state: &200u8, builder: 0 }, T::A { state: &200u8, builder: 9 }] }
pub fn show(x: &T) -> String { #[allow(unused_variables)] match x { T::B(p0, p1) => format!("B({},{})", sv(p0), sv(p1)), T::A { state: p0, builder: p1 } => format!("A({},{})", sv(p0), sv(p1)) } }
pub fn o_disc(x: &T) -> i128 { match x { T::B(_, _) => 70000, T::A { state: _, builder: _ } => 70001 } }
pub fn o_cmp(a: &T, b: &T) -> Ordering { match (a, b) { (T::B(a0, a1), T::B(b0, b1)) => { let c = ::core::cmp::Ord::cmp(a0, b0); if c != Ordering::Equal { return c; } let c = ::core::cmp::Ord::cmp(a1, b1); if c != Ordering::Equal { return c; } Ordering::Equal }, (T::A { state: a0, builder: a1 }, T::A { state: b0, builder: b1 }) => { let c = ::core::cmp::Ord::cmp(a1, b1); if c != Ordering::Equal { return c; } let c = ::core::cmp::Ord::cmp(a0, b0); if c != Ordering::Equal { return c; } Ordering::Equal }, _ => o_disc(a).cmp(&o_disc(b)) } }
#[repr(C)] pub struct Wrap { pub pre: u8, pub x: T, pub post: [u8; 9] }
pub fn wrap(i: usize, n: u8) -> Wrap { Wrap { pre: n, x: values().swap_remove(i), post: [n; 9] } }
pub fn run(out: &mut Out) { let vs = values(); for (i, a) in vs.iter().enumerate() { for (j, b) in vs.iter().enumerate() { let e = o_cmp(a, b); let g = ::core::cmp::Ord::cmp(a, b); out.check(g == e, "ordlayout_4", "cmp", || format!("cmp({}, {}) = {:?} expected {:?}", show(a), show(b), g, e)); let g2 = ::core::cmp::PartialOrd::partial_cmp(a, b); out.check(g2 == Some(e), "ordlayout_4", "partial_is_some_cmp", || format!("partial_cmp({}, {}) = {:?} expected Some({:?})", show(a), show(b), g2, e)); for n in [0u8, 1, 0x7f, 0x80, 0xff] { let wa = wrap(i, n); let wb = wrap(j, !n); let g = ::core::cmp::Ord::cmp(&wa.x, &wb.x); let e = o_cmp(a, b); out.check(g == e, "ordlayout_4", "cmp_neighbours", || format!("cmp({}, {}) with neighbour bytes {} = {:?} expected {:?}", show(a), show(b), n, g, e)); } } } }
