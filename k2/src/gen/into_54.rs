// into_54
#![allow(dead_code, unused_variables, unused_mut, unused_imports, non_shorthand_field_patterns, clippy::all)]
use crate::support::*;
use educe::Educe;
use core::cmp::Ordering;
#[derive(Educe)]
#[educe(Into(B<2>))]
pub struct T(A<3>);
pub fn values() -> Vec<T> { vec![T(A(0)), T(A(1)), T(A(7))] }
pub fn show(x: &T) -> String { #[allow(unused_variables)] match x { T(p0) => format!("T({})", sv(p0)) } }
pub fn o_into_0(x: T) -> B<2> { match x { T(p0) => ::core::convert::Into::into(p0) } }
pub fn run(out: &mut Out) { let n = values().len(); for i in 0..n { let a = values().swap_remove(i); let shown = show(&a); let g: B<2> = ::core::convert::Into::into(a); let e = o_into_0(values().swap_remove(i)); out.check(sv(&g) == sv(&e), "into_54", "into", || format!("Into::<B<2>>::into({}) = {} expected {}", shown, sv(&g), sv(&e))); } }
