// ordlayout_27
#![allow(dead_code, unused_variables, unused_mut, unused_imports, non_shorthand_field_patterns, clippy::all)]
use crate::support::*;
use educe::Educe;
use core::cmp::Ordering;
#[derive(Educe)]
#[educe(PartialEq, Ord, Eq)]
pub enum T { Zed { #[educe(Ord(rank(2)))] b: (), #[educe(Ord(rank = "-3"))] r#type: Option<u8>, f: Option<u8> }, C() }
impl PartialOrd for T { fn partial_cmp(&self, o: &Self) -> Option<Ordering> { Some(::core::cmp::Ord::cmp(self, o)) } }
pub fn values() -> Vec<T> { vec![T::Zed { b: (), r#type: None, f: None }, T::Zed { b: (), r#type: None, f: Some(0) }, T::Zed { b: (), r#type: None, f: Some(255) }, T::Zed { b: (), r#type: Some(0), f: None }, T::Zed { b: (), r#type: Some(0), f: Some(0) }, T::Zed { b: (), r#type: Some(0), f: Some(255) }, T::Zed { b: (), r#type: Some(255), f: None }, T::Zed { b: (), r#type: Some(255), f: Some(0) }, T::Zed { b: (), r#type: Some(255), f: Some(255) }, T::C()] }
pub fn show(x: &T) -> String { #[allow(unused_variables)] match x { T::Zed { b: p0, r#type: p1, f: p2 } => format!("Zed({},{},{})", sv(p0), sv(p1), sv(p2)), T::C() => format!("C()") } }
pub fn o_disc(x: &T) -> i128 { match x { T::Zed { b: _, r#type: _, f: _ } => 0, T::C() => 1 } }
pub fn o_cmp(a: &T, b: &T) -> Ordering { match (a, b) { (T::Zed { b: a0, r#type: a1, f: a2 }, T::Zed { b: b0, r#type: b1, f: b2 }) => { let c = ::core::cmp::Ord::cmp(a2, b2); if c != Ordering::Equal { return c; } let c = ::core::cmp::Ord::cmp(a1, b1); if c != Ordering::Equal { return c; } let c = ::core::cmp::Ord::cmp(a0, b0); if c != Ordering::Equal { return c; } Ordering::Equal }, (T::C(), T::C()) => {  Ordering::Equal }, _ => o_disc(a).cmp(&o_disc(b)) } }
#[repr(C)] pub struct Wrap { pub pre: u8, pub x: T, pub post: [u8; 9] }
pub fn wrap(i: usize, n: u8) -> Wrap { Wrap { pre: n, x: values().swap_remove(i), post: [n; 9] } }
pub fn run(out: &mut Out) { let vs = values(); for (i, a) in vs.iter().enumerate() { for (j, b) in vs.iter().enumerate() { let e = o_cmp(a, b); let g = ::core::cmp::Ord::cmp(a, b); out.check(g == e, "ordlayout_27", "cmp", || format!("cmp({}, {}) = {:?} expected {:?}", show(a), show(b), g, e)); for n in [0u8, 1, 0x7f, 0x80, 0xff] { let wa = wrap(i, n); let wb = wrap(j, !n); let g = ::core::cmp::Ord::cmp(&wa.x, &wb.x); let e = o_cmp(a, b); out.check(g == e, "ordlayout_27", "cmp_neighbours", || format!("cmp({}, {}) with neighbour bytes {} = {:?} expected {:?}", show(a), show(b), n, g, e)); } } } }
