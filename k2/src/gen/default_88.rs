// default_88
#![allow(dead_code, unused_variables, unused_mut, unused_imports, non_shorthand_field_patterns, clippy::all)]
use crate::support::*;
use educe::Educe;
use core::cmp::Ordering;
#[derive(Educe)]
#[educe(Default)]
pub enum T { Some, Zed { a: i128 }, #[educe(Default)] B, Unit { other: A<0>, y: f64 } }
pub fn show(x: &T) -> String { #[allow(unused_variables)] match x { T::Some => format!("Some()"), T::Zed { a: p0 } => format!("Zed({})", sv(p0)), T::B => format!("B()"), T::Unit { other: p0, y: p1 } => format!("Unit({},{})", sv(p0), sv(p1)) } }
pub fn o_default() -> T { T::B }
pub fn run(out: &mut Out) { let g = <T as ::core::default::Default>::default(); let e = o_default(); out.check(show(&g) == show(&e), "default_88", "default", || format!("default() = {} expected {}", show(&g), show(&e))); }
