// deref_72
#![allow(dead_code, unused_variables, unused_mut, unused_imports, non_shorthand_field_patterns, clippy::all)]
use crate::support::*;
use educe::Educe;
use core::cmp::Ordering;
#[derive(Educe)]
#[educe(Deref)]
pub enum T { B(&'static A<0>), V1(A<0>, #[educe(Deref)] &'static A<0>), A { other: A<1>, #[educe(Deref)] a: &'static A<0> } }
pub fn values() -> Vec<T> { vec![T::B(&A(0)), T::B(&A(1)), T::V1(A(0), &A(1)), T::V1(A(1), &A(0)), T::V1(A(1), &A(1)), T::V1(A(7), &A(0)), T::V1(A(0), &A(0)), T::A { other: A(1), a: &A(1) }, T::A { other: A(0), a: &A(0) }, T::A { other: A(7), a: &A(1) }, T::A { other: A(7), a: &A(0) }, T::A { other: A(0), a: &A(1) }] }
pub fn show(x: &T) -> String { #[allow(unused_variables)] match x { T::B(p0) => format!("B({})", sv(p0)), T::V1(p0, p1) => format!("V1({},{})", sv(p0), sv(p1)), T::A { other: p0, a: p1 } => format!("A({},{})", sv(p0), sv(p1)) } }
pub fn o_deref(x: &T) -> *const A<0> { match x { T::B(p0) => *p0 as *const A<0>, T::V1(_, p1) => *p1 as *const A<0>, T::A { other: _, a: p1 } => *p1 as *const A<0> } }
pub fn run(out: &mut Out) { let vs = values(); for a in &vs { let g = ::core::ops::Deref::deref(a) as *const A<0>; let e = o_deref(a); out.check(g == e, "deref_72", "deref", || format!("&*{} has another address than the designated field", show(a))); } }
