// ordlayout_137
#![allow(dead_code, unused_variables, unused_mut, unused_imports, non_shorthand_field_patterns, clippy::all)]
use crate::support::*;
use educe::Educe;
use core::cmp::Ordering;
#[derive(Educe)]
#[repr(i64)]
#[educe(Eq, PartialEq, Ord)]
pub enum T { A {  } = 2, C { #[educe(Ord(rank("7")))] f: char, c: Option<u8>, #[educe(Ord(rank = 6i64))] y: i64 } = 100 }
impl PartialOrd for T { fn partial_cmp(&self, o: &Self) -> Option<Ordering> { Some(::core::cmp::Ord::cmp(self, o)) } }
pub fn values() -> Vec<T> { vec![T::A {  }, T::C { f: 'a', c: None, y: -5 }, T::C { f: 'a', c: None, y: 0 }, T::C { f: 'a', c: None, y: 9 }, T::C { f: 'a', c: Some(0), y: -5 }, T::C { f: 'a', c: Some(0), y: 0 }, T::C { f: 'a', c: Some(0), y: 9 }, T::C { f: 'a', c: Some(255), y: -5 }, T::C { f: 'a', c: Some(255), y: 0 }, T::C { f: 'a', c: Some(255), y: 9 }, T::C { f: 'z', c: None, y: -5 }, T::C { f: 'z', c: None, y: 0 }, T::C { f: 'z', c: None, y: 9 }, T::C { f: 'z', c: Some(0), y: -5 }, T::C { f: 'z', c: Some(0), y: 0 }, T::C { f: 'z', c: Some(0), y: 9 }, T::C { f: 'z', c: Some(255), y: -5 }, T::C { f: 'z', c: Some(255), y: 0 }, T::C { f: 'z', c: Some(255), y: 9 }] }
pub fn show(x: &T) -> String { #[allow(unused_variables)] match x { T::A {  } => format!("A()"), T::C { f: p0, c: p1, y: p2 } => format!("C({},{},{})", sv(p0), sv(p1), sv(p2)) } }
pub fn o_disc(x: &T) -> i128 { match x { T::A {  } => 2, T::C { f: _, c: _, y: _ } => 100 } }
pub fn o_cmp(a: &T, b: &T) -> Ordering { match (a, b) { (T::A {  }, T::A {  }) => {  Ordering::Equal }, (T::C { f: a0, c: a1, y: a2 }, T::C { f: b0, c: b1, y: b2 }) => { let c = ::core::cmp::Ord::cmp(a1, b1); if c != Ordering::Equal { return c; } let c = ::core::cmp::Ord::cmp(a2, b2); if c != Ordering::Equal { return c; } let c = ::core::cmp::Ord::cmp(a0, b0); if c != Ordering::Equal { return c; } Ordering::Equal }, _ => o_disc(a).cmp(&o_disc(b)) } }
#[repr(C)] pub struct Wrap { pub pre: u8, pub x: T, pub post: [u8; 9] }
pub fn wrap(i: usize, n: u8) -> Wrap { Wrap { pre: n, x: values().swap_remove(i), post: [n; 9] } }
pub fn run(out: &mut Out) { let vs = values(); for (i, a) in vs.iter().enumerate() { for (j, b) in vs.iter().enumerate() { let e = o_cmp(a, b); let g = ::core::cmp::Ord::cmp(a, b); out.check(g == e, "ordlayout_137", "cmp", || format!("cmp({}, {}) = {:?} expected {:?}", show(a), show(b), g, e)); for n in [0u8, 1, 0x7f, 0x80, 0xff] { let wa = wrap(i, n); let wb = wrap(j, !n); let g = ::core::cmp::Ord::cmp(&wa.x, &wb.x); let e = o_cmp(a, b); out.check(g == e, "ordlayout_137", "cmp_neighbours", || format!("cmp({}, {}) with neighbour bytes {} = {:?} expected {:?}", show(a), show(b), n, g, e)); } } } }
