// into_77
#![allow(dead_code, unused_variables, unused_mut, unused_imports, non_shorthand_field_patterns, clippy::all)]
use crate::support::*;
use educe::Educe;
use core::cmp::Ordering;
#[derive(Educe)]
#[educe(Into(A<0>), Into(A<1>))]
pub struct T { f: A<0>, c: A<1> }
pub fn values() -> Vec<T> { vec![T { f: A(0), c: A(0) }, T { f: A(0), c: A(1) }, T { f: A(0), c: A(7) }, T { f: A(1), c: A(0) }, T { f: A(1), c: A(1) }, T { f: A(1), c: A(7) }, T { f: A(7), c: A(0) }, T { f: A(7), c: A(1) }, T { f: A(7), c: A(7) }] }
pub fn show(x: &T) -> String { #[allow(unused_variables)] match x { T { f: p0, c: p1 } => format!("T({},{})", sv(p0), sv(p1)) } }
pub fn o_into_0(x: T) -> A<0> { match x { T { f: p0, c: _ } => p0 } }
pub fn o_into_1(x: T) -> A<1> { match x { T { f: _, c: p1 } => p1 } }
pub fn run(out: &mut Out) { let n = values().len(); for i in 0..n { let a = values().swap_remove(i); let shown = show(&a); let g: A<0> = ::core::convert::Into::into(a); let e = o_into_0(values().swap_remove(i)); out.check(sv(&g) == sv(&e), "into_77", "into", || format!("Into::<A<0>>::into({}) = {} expected {}", shown, sv(&g), sv(&e))); } for i in 0..n { let a = values().swap_remove(i); let shown = show(&a); let g: A<1> = ::core::convert::Into::into(a); let e = o_into_1(values().swap_remove(i)); out.check(sv(&g) == sv(&e), "into_77", "into", || format!("Into::<A<1>>::into({}) = {} expected {}", shown, sv(&g), sv(&e))); } }
