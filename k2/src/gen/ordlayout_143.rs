// ordlayout_143
#![allow(dead_code, unused_variables, unused_mut, unused_imports, non_shorthand_field_patterns, clippy::all)]
use crate::support::*;
use educe::Educe;
use core::cmp::Ordering;
#[derive(Educe)]
#[repr(isize)]
#[educe(PartialEq, PartialOrd, Eq)]
pub enum T { Some(char, #[educe(PartialOrd(rank("-3")))] u8), B {  } = 255, C(Option<u8>, char) }

pub fn values() -> Vec<T> { vec![T::Some('a', 0), T::Some('a', 100), T::Some('a', 200), T::Some('z', 0), T::Some('z', 100), T::Some('z', 200), T::B {  }, T::C(None, 'a'), T::C(None, 'z'), T::C(Some(0), 'a'), T::C(Some(0), 'z'), T::C(Some(255), 'a'), T::C(Some(255), 'z')] }
pub fn show(x: &T) -> String { #[allow(unused_variables)] match x { T::Some(p0, p1) => format!("Some({},{})", sv(p0), sv(p1)), T::B {  } => format!("B()"), T::C(p0, p1) => format!("C({},{})", sv(p0), sv(p1)) } }
pub fn o_disc(x: &T) -> i128 { match x { T::Some(_, _) => 0, T::B {  } => 255, T::C(_, _) => 256 } }
pub fn o_pcmp(a: &T, b: &T) -> Option<Ordering> { match (a, b) { (T::Some(a0, a1), T::Some(b0, b1)) => { match ::core::cmp::PartialOrd::partial_cmp(a0, b0) { Some(Ordering::Equal) => (), x => return x } match ::core::cmp::PartialOrd::partial_cmp(a1, b1) { Some(Ordering::Equal) => (), x => return x } Some(Ordering::Equal) }, (T::B {  }, T::B {  }) => {  Some(Ordering::Equal) }, (T::C(a0, a1), T::C(b0, b1)) => { match ::core::cmp::PartialOrd::partial_cmp(a0, b0) { Some(Ordering::Equal) => (), x => return x } match ::core::cmp::PartialOrd::partial_cmp(a1, b1) { Some(Ordering::Equal) => (), x => return x } Some(Ordering::Equal) }, _ => Some(o_disc(a).cmp(&o_disc(b))) } }
#[repr(C)] pub struct Wrap { pub pre: u8, pub x: T, pub post: [u8; 9] }
pub fn wrap(i: usize, n: u8) -> Wrap { Wrap { pre: n, x: values().swap_remove(i), post: [n; 9] } }
pub fn run(out: &mut Out) { let vs = values(); for (i, a) in vs.iter().enumerate() { for (j, b) in vs.iter().enumerate() { let e = o_pcmp(a, b); let g = ::core::cmp::PartialOrd::partial_cmp(a, b); out.check(g == e, "ordlayout_143", "partial_cmp", || format!("partial_cmp({}, {}) = {:?} expected {:?}", show(a), show(b), g, e)); for n in [0u8, 1, 0x7f, 0x80, 0xff] { let wa = wrap(i, n); let wb = wrap(j, !n); let g = ::core::cmp::PartialOrd::partial_cmp(&wa.x, &wb.x); let e = o_pcmp(a, b); out.check(g == e, "ordlayout_143", "cmp_neighbours", || format!("cmp({}, {}) with neighbour bytes {} = {:?} expected {:?}", show(a), show(b), n, g, e)); } } } }
