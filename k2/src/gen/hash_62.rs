// hash_62
#![allow(dead_code, unused_variables, unused_mut, unused_imports, non_shorthand_field_patterns, clippy::all)]
use crate::support::*;
use educe::Educe;
use core::cmp::Ordering;
#[derive(Educe)]
#[educe(Hash)]
pub enum T { A(A<0>, A<1>, #[educe(Hash = false)] A<2>), C, V1, Some(A<0>) }
pub fn values() -> Vec<T> { vec![T::A(A(0), A(7), A(1)), T::A(A(0), A(1), A(1)), T::A(A(1), A(0), A(0)), T::A(A(1), A(1), A(7)), T::A(A(0), A(0), A(1)), T::A(A(1), A(0), A(1)), T::A(A(1), A(0), A(7)), T::A(A(7), A(1), A(0)), T::A(A(7), A(1), A(7)), T::A(A(7), A(7), A(0)), T::A(A(0), A(1), A(7)), T::A(A(1), A(1), A(0)), T::C, T::V1, T::Some(A(0)), T::Some(A(1)), T::Some(A(7))] }
pub fn show(x: &T) -> String { #[allow(unused_variables)] match x { T::A(p0, p1, p2) => format!("A({},{},{})", sv(p0), sv(p1), sv(p2)), T::C => format!("C()"), T::V1 => format!("V1()"), T::Some(p0) => format!("Some({})", sv(p0)) } }
pub fn o_hash(x: &T) -> Vec<String> { let mut e = Rec::default(); match x { T::A(p0, p1, p2) => { ::core::hash::Hash::hash(&0usize, &mut e); ::core::hash::Hash::hash(p0, &mut e); ::core::hash::Hash::hash(p1, &mut e); }, T::C => { ::core::hash::Hash::hash(&1usize, &mut e); }, T::V1 => { ::core::hash::Hash::hash(&2usize, &mut e); }, T::Some(p0) => { ::core::hash::Hash::hash(&3usize, &mut e); ::core::hash::Hash::hash(p0, &mut e); } } e.0 }
pub fn run(out: &mut Out) { let vs = values(); for a in &vs { let mut g = Rec::default(); ::core::hash::Hash::hash(a, &mut g); let e = o_hash(a); out.check(g.0 == e, "hash_62", "hash", || format!("hash({}) fed {:?} expected {:?}", show(a), g.0, e)); } }
