// default_36
#![allow(dead_code, unused_variables, unused_mut, unused_imports, non_shorthand_field_patterns, clippy::all)]
use crate::support::*;
use educe::Educe;
use core::cmp::Ordering;
#[derive(Educe)]
#[educe(Default)]
pub struct T(#[educe(Default = 9u16)] u16, #[educe(Default(expr = 1.5))] f32, #[educe(Default(expression(5)))] u8, A<3>);
pub fn show(x: &T) -> String { #[allow(unused_variables)] match x { T(p0, p1, p2, p3) => format!("T({},{},{},{})", sv(p0), sv(p1), sv(p2), sv(p3)) } }
pub fn o_default() -> T { T(9u16, 1.5f32, 5u8, A(43)) }
pub fn run(out: &mut Out) { let g = <T as ::core::default::Default>::default(); let e = o_default(); out.check(show(&g) == show(&e), "default_36", "default", || format!("default() = {} expected {}", show(&g), show(&e))); }
