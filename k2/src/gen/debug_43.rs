// debug_43
#![allow(dead_code, unused_variables, unused_mut, unused_imports, non_shorthand_field_patterns, clippy::all)]
use crate::support::*;
use educe::Educe;
use core::cmp::Ordering;
#[derive(Educe)]
#[educe(Debug(name(false)))]
pub enum T { B() }
pub fn values() -> Vec<T> { vec![T::B()] }
pub fn show(x: &T) -> String { #[allow(unused_variables)] match x { T::B() => format!("B()") } }
pub fn o_fmt(x: &T, f: &mut ::core::fmt::Formatter<'_>) -> ::core::fmt::Result { match x { T::B() => f.debug_tuple("B").finish() } }

pub fn run(out: &mut Out) { let vs = values(); for a in &vs { let g = format!("{:?}", a); let e = format!("{:?}", Fm(|f: &mut ::core::fmt::Formatter<'_>| o_fmt(a, f))); out.check(g == e, "debug_43", "debug", || format!("{{:?}} of {} = {:?} expected {:?}", show(a), g, e)); let g = format!("{:#?}", a); let e = format!("{:#?}", Fm(|f: &mut ::core::fmt::Formatter<'_>| o_fmt(a, f))); out.check(g == e, "debug_43", "debug_alt", || format!("{{:#?}} of {} = {:?} expected {:?}", show(a), g, e)); let g = format!("{:8?}", a); let e = format!("{:8?}", Fm(|f: &mut ::core::fmt::Formatter<'_>| o_fmt(a, f))); out.check(g == e, "debug_43", "debug_width", || format!("{{:8?}} of {} = {:?} expected {:?}", show(a), g, e)); }  }
