// default_102
#![allow(dead_code, unused_variables, unused_mut, unused_imports, non_shorthand_field_patterns, clippy::all)]
use crate::support::*;
use educe::Educe;
use core::cmp::Ordering;
#[derive(Educe)]
#[educe(Default(new = true))]
pub enum T { Zed(i64, f32, i64), Unit(), B(f32, f32, f64, f32), #[educe(Default)] Some }
pub fn show(x: &T) -> String { #[allow(unused_variables)] match x { T::Zed(p0, p1, p2) => format!("Zed({},{},{})", sv(p0), sv(p1), sv(p2)), T::Unit() => format!("Unit()"), T::B(p0, p1, p2, p3) => format!("B({},{},{},{})", sv(p0), sv(p1), sv(p2), sv(p3)), T::Some => format!("Some()") } }
pub fn o_default() -> T { T::Some }
pub fn run(out: &mut Out) { let g = <T as ::core::default::Default>::default(); let e = o_default(); out.check(show(&g) == show(&e), "default_102", "default", || format!("default() = {} expected {}", show(&g), show(&e))); let g = T::new(); let e = o_default(); out.check(show(&g) == show(&e), "default_102", "new", || format!("new() = {} expected {}", show(&g), show(&e))); }
