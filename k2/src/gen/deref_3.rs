// deref_3
#![allow(dead_code, unused_variables, unused_mut, unused_imports, non_shorthand_field_patterns, clippy::all)]
use crate::support::*;
use educe::Educe;
use core::cmp::Ordering;
#[derive(Educe)]
#[educe(Deref)]
pub struct T { r#type: A<1>, #[educe(Deref)] data: A<1> }
pub fn values() -> Vec<T> { vec![T { r#type: A(0), data: A(0) }, T { r#type: A(0), data: A(1) }, T { r#type: A(0), data: A(7) }, T { r#type: A(1), data: A(0) }, T { r#type: A(1), data: A(1) }, T { r#type: A(1), data: A(7) }, T { r#type: A(7), data: A(0) }, T { r#type: A(7), data: A(1) }, T { r#type: A(7), data: A(7) }] }
pub fn show(x: &T) -> String { #[allow(unused_variables)] match x { T { r#type: p0, data: p1 } => format!("T({},{})", sv(p0), sv(p1)) } }
pub fn o_deref(x: &T) -> *const A<1> { match x { T { r#type: _, data: p1 } => p1 as *const A<1> } }
pub fn run(out: &mut Out) { let vs = values(); for a in &vs { let g = ::core::ops::Deref::deref(a) as *const A<1>; let e = o_deref(a); out.check(g == e, "deref_3", "deref", || format!("&*{} has another address than the designated field", show(a))); } }
