// eq_33
#![allow(dead_code, unused_variables, unused_mut, unused_imports, non_shorthand_field_patterns, clippy::all)]
use crate::support::*;
use educe::Educe;
use core::cmp::Ordering;
#[derive(Educe)]
#[educe(PartialEq, Eq)]
pub struct T { state: A<0>, builder: A<0>, data: A<0> }
pub fn values() -> Vec<T> { vec![T { state: A(0), builder: A(0), data: A(0) }, T { state: A(0), builder: A(0), data: A(1) }, T { state: A(0), builder: A(0), data: A(7) }, T { state: A(0), builder: A(1), data: A(0) }, T { state: A(0), builder: A(1), data: A(1) }, T { state: A(0), builder: A(1), data: A(7) }, T { state: A(0), builder: A(7), data: A(0) }, T { state: A(0), builder: A(7), data: A(1) }, T { state: A(0), builder: A(7), data: A(7) }, T { state: A(1), builder: A(0), data: A(0) }, T { state: A(1), builder: A(0), data: A(1) }, T { state: A(1), builder: A(0), data: A(7) }, T { state: A(1), builder: A(1), data: A(0) }, T { state: A(1), builder: A(1), data: A(1) }, T { state: A(1), builder: A(1), data: A(7) }, T { state: A(1), builder: A(7), data: A(0) }, T { state: A(1), builder: A(7), data: A(1) }, T { state: A(1), builder: A(7), data: A(7) }, T { state: A(7), builder: A(0), data: A(0) }, T { state: A(7), builder: A(0), data: A(1) }, T { state: A(7), builder: A(0), data: A(7) }, T { state: A(7), builder: A(1), data: A(0) }, T { state: A(7), builder: A(1), data: A(1) }, T { state: A(7), builder: A(1), data: A(7) }, T { state: A(7), builder: A(7), data: A(0) }, T { state: A(7), builder: A(7), data: A(1) }, T { state: A(7), builder: A(7), data: A(7) }] }
pub fn show(x: &T) -> String { #[allow(unused_variables)] match x { T { state: p0, builder: p1, data: p2 } => format!("T({},{},{})", sv(p0), sv(p1), sv(p2)) } }
pub fn o_eq(a: &T, b: &T) -> bool { match (a, b) { (T { state: a0, builder: a1, data: a2 }, T { state: b0, builder: b1, data: b2 }) => (a0 == b0) && (a1 == b1) && (a2 == b2) } }
pub fn run(out: &mut Out) { let vs = values(); for a in &vs { for b in &vs { let e = o_eq(a, b); out.check((a == b) == e, "eq_33", "eq", || format!("{} == {} expected {}", show(a), show(b), e)); out.check((a != b) == !e, "eq_33", "ne", || format!("{} != {} expected {}", show(a), show(b), !e)); } } }
