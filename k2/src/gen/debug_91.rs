// debug_91
#![allow(dead_code, unused_variables, unused_mut, unused_imports, non_shorthand_field_patterns, clippy::all)]
use crate::support::*;
use educe::Educe;
use core::cmp::Ordering;
#[derive(Educe)]
#[educe(Debug)]
pub enum T { B { c: A<0>, #[educe(Debug(ignore(true)))] source: A<1>, x: A<2> } }
pub fn values() -> Vec<T> { vec![T::B { c: A(7), source: A(1), x: A(1) }, T::B { c: A(0), source: A(0), x: A(7) }, T::B { c: A(1), source: A(1), x: A(1) }, T::B { c: A(1), source: A(1), x: A(0) }, T::B { c: A(1), source: A(7), x: A(0) }, T::B { c: A(1), source: A(0), x: A(7) }, T::B { c: A(7), source: A(7), x: A(7) }, T::B { c: A(0), source: A(0), x: A(1) }, T::B { c: A(1), source: A(0), x: A(1) }, T::B { c: A(0), source: A(7), x: A(1) }, T::B { c: A(0), source: A(7), x: A(0) }, T::B { c: A(0), source: A(1), x: A(1) }, T::B { c: A(7), source: A(7), x: A(1) }, T::B { c: A(1), source: A(1), x: A(7) }, T::B { c: A(0), source: A(7), x: A(7) }, T::B { c: A(0), source: A(1), x: A(7) }, T::B { c: A(7), source: A(1), x: A(7) }, T::B { c: A(7), source: A(7), x: A(0) }, T::B { c: A(1), source: A(7), x: A(7) }, T::B { c: A(7), source: A(1), x: A(0) }, T::B { c: A(7), source: A(0), x: A(0) }, T::B { c: A(1), source: A(0), x: A(0) }, T::B { c: A(1), source: A(7), x: A(1) }, T::B { c: A(7), source: A(0), x: A(1) }] }
pub fn show(x: &T) -> String { #[allow(unused_variables)] match x { T::B { c: p0, source: p1, x: p2 } => format!("B({},{},{})", sv(p0), sv(p1), sv(p2)) } }
pub fn o_fmt(x: &T, f: &mut ::core::fmt::Formatter<'_>) -> ::core::fmt::Result { match x { T::B { c: p0, source: p1, x: p2 } => f.debug_struct("B").field("c", p0).field("x", p2).finish() } }

pub fn run(out: &mut Out) { let vs = values(); for a in &vs { let g = format!("{:?}", a); let e = format!("{:?}", Fm(|f: &mut ::core::fmt::Formatter<'_>| o_fmt(a, f))); out.check(g == e, "debug_91", "debug", || format!("{{:?}} of {} = {:?} expected {:?}", show(a), g, e)); let g = format!("{:#?}", a); let e = format!("{:#?}", Fm(|f: &mut ::core::fmt::Formatter<'_>| o_fmt(a, f))); out.check(g == e, "debug_91", "debug_alt", || format!("{{:#?}} of {} = {:?} expected {:?}", show(a), g, e)); let g = format!("{:8?}", a); let e = format!("{:8?}", Fm(|f: &mut ::core::fmt::Formatter<'_>| o_fmt(a, f))); out.check(g == e, "debug_91", "debug_width", || format!("{{:8?}} of {} = {:?} expected {:?}", show(a), g, e)); }  }
