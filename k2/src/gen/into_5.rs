// into_5
#![allow(dead_code, unused_variables, unused_mut, unused_imports, non_shorthand_field_patterns, clippy::all)]
use crate::support::*;
use educe::Educe;
use core::cmp::Ordering;
#[derive(Educe)]
#[educe(Into(A<0>))]
pub enum T { B(A<0>, A<3>) }
pub fn values() -> Vec<T> { vec![T::B(A(0), A(0)), T::B(A(0), A(1)), T::B(A(0), A(7)), T::B(A(1), A(0)), T::B(A(1), A(1)), T::B(A(1), A(7)), T::B(A(7), A(0)), T::B(A(7), A(1)), T::B(A(7), A(7))] }
pub fn show(x: &T) -> String { #[allow(unused_variables)] match x { T::B(p0, p1) => format!("B({},{})", sv(p0), sv(p1)) } }
pub fn o_into_0(x: T) -> A<0> { match x { T::B(p0, _) => p0 } }
pub fn run(out: &mut Out) { let n = values().len(); for i in 0..n { let a = values().swap_remove(i); let shown = show(&a); let g: A<0> = ::core::convert::Into::into(a); let e = o_into_0(values().swap_remove(i)); out.check(sv(&g) == sv(&e), "into_5", "into", || format!("Into::<A<0>>::into({}) = {} expected {}", shown, sv(&g), sv(&e))); } }
