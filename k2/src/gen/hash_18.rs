// hash_18
#![allow(dead_code, unused_variables, unused_mut, unused_imports, non_shorthand_field_patterns, clippy::all)]
use crate::support::*;
use educe::Educe;
use core::cmp::Ordering;
#[derive(Educe)]
#[educe(Hash)]
pub enum T { A(), None { #[educe(Hash = false)] source: A<0>, #[educe(Hash(method = m_hash))] b: A<1> } }
pub fn values() -> Vec<T> { vec![T::A(), T::None { source: A(0), b: A(0) }, T::None { source: A(0), b: A(1) }, T::None { source: A(0), b: A(7) }, T::None { source: A(1), b: A(0) }, T::None { source: A(1), b: A(1) }, T::None { source: A(1), b: A(7) }, T::None { source: A(7), b: A(0) }, T::None { source: A(7), b: A(1) }, T::None { source: A(7), b: A(7) }] }
pub fn show(x: &T) -> String { #[allow(unused_variables)] match x { T::A() => format!("A()"), T::None { source: p0, b: p1 } => format!("None({},{})", sv(p0), sv(p1)) } }
pub fn o_hash(x: &T) -> Vec<String> { let mut e = Rec::default(); match x { T::A() => { ::core::hash::Hash::hash(&0usize, &mut e); }, T::None { source: p0, b: p1 } => { ::core::hash::Hash::hash(&1usize, &mut e); m_hash(p1, &mut e); } } e.0 }
pub fn run(out: &mut Out) { let vs = values(); for a in &vs { let mut g = Rec::default(); ::core::hash::Hash::hash(a, &mut g); let e = o_hash(a); out.check(g.0 == e, "hash_18", "hash", || format!("hash({}) fed {:?} expected {:?}", show(a), g.0, e)); } }
