// debug_93
#![allow(dead_code, unused_variables, unused_mut, unused_imports, non_shorthand_field_patterns, clippy::all)]
use crate::support::*;
use educe::Educe;
use core::cmp::Ordering;
#[derive(Educe)]
#[educe(Debug(name = false))]
pub enum T { Zed(#[educe(Debug(ignore(true)))] A<0>, #[educe(Debug = false)] A<0>), #[educe(Debug(rename = Ren))] C }
pub fn values() -> Vec<T> { vec![T::Zed(A(0), A(0)), T::Zed(A(0), A(1)), T::Zed(A(0), A(7)), T::Zed(A(1), A(0)), T::Zed(A(1), A(1)), T::Zed(A(1), A(7)), T::Zed(A(7), A(0)), T::Zed(A(7), A(1)), T::Zed(A(7), A(7)), T::C] }
pub fn show(x: &T) -> String { #[allow(unused_variables)] match x { T::Zed(p0, p1) => format!("Zed({},{})", sv(p0), sv(p1)), T::C => format!("C()") } }
pub fn o_fmt(x: &T, f: &mut ::core::fmt::Formatter<'_>) -> ::core::fmt::Result { match x { T::Zed(p0, p1) => f.debug_tuple("Zed").finish(), T::C => f.write_str("Ren") } }

pub fn run(out: &mut Out) { let vs = values(); for a in &vs { let g = format!("{:?}", a); let e = format!("{:?}", Fm(|f: &mut ::core::fmt::Formatter<'_>| o_fmt(a, f))); out.check(g == e, "debug_93", "debug", || format!("{{:?}} of {} = {:?} expected {:?}", show(a), g, e)); let g = format!("{:#?}", a); let e = format!("{:#?}", Fm(|f: &mut ::core::fmt::Formatter<'_>| o_fmt(a, f))); out.check(g == e, "debug_93", "debug_alt", || format!("{{:#?}} of {} = {:?} expected {:?}", show(a), g, e)); let g = format!("{:8?}", a); let e = format!("{:8?}", Fm(|f: &mut ::core::fmt::Formatter<'_>| o_fmt(a, f))); out.check(g == e, "debug_93", "debug_width", || format!("{{:8?}} of {} = {:?} expected {:?}", show(a), g, e)); }  }
