// default_6
#![allow(dead_code, unused_variables, unused_mut, unused_imports, non_shorthand_field_patterns, clippy::all)]
use crate::support::*;
use educe::Educe;
use core::cmp::Ordering;
#[derive(Educe)]
#[educe(Default(new(true)))]
pub struct T;
pub fn show(x: &T) -> String { #[allow(unused_variables)] match x { T => format!("T()") } }
pub fn o_default() -> T { T }
pub fn run(out: &mut Out) { let g = <T as ::core::default::Default>::default(); let e = o_default(); out.check(show(&g) == show(&e), "default_6", "default", || format!("default() = {} expected {}", show(&g), show(&e))); let g = T::new(); let e = o_default(); out.check(show(&g) == show(&e), "default_6", "new", || format!("new() = {} expected {}", show(&g), show(&e))); }
