// union_13
#![allow(dead_code, unused_variables, unused_mut, unused_imports, non_shorthand_field_patterns, clippy::all)]
use crate::support::*;
use educe::Educe;
use core::cmp::Ordering;
#[derive(Educe)]
#[educe(Default)]
pub union T { b: [u16; 2], c: u64, #[educe(Default)] state: u32 }

pub fn mk(pattern: u8) -> T { let mut x = ::core::mem::MaybeUninit::<T>::uninit(); unsafe { ::core::ptr::write_bytes(x.as_mut_ptr() as *mut u8, 0, ::core::mem::size_of::<T>()); let p = x.as_mut_ptr() as *mut u8; for i in 0..::core::mem::size_of::<T>() { *p.add(i) = pattern.wrapping_mul(i as u8 + 1).wrapping_add(i as u8); } x.assume_init() } }
pub fn bytes(x: &T) -> &[u8] { unsafe { ::core::slice::from_raw_parts(x as *const T as *const u8, ::core::mem::size_of::<T>()) } }
pub fn run(out: &mut Out) { { let d = <T as ::core::default::Default>::default(); let e = T { state: ::core::default::Default::default() }; let n = ::core::mem::size_of::<u32>(); out.check(bytes(&d)[..n] == bytes(&e)[..n], "union_13", "union_default", || format!("default() initialised {:?} expected field state = {:?}", &bytes(&d)[..n], &bytes(&e)[..n])); } }
