// ord_61
#![allow(dead_code, unused_variables, unused_mut, unused_imports, non_shorthand_field_patterns, clippy::all)]
use crate::support::*;
use educe::Educe;
use core::cmp::Ordering;
#[derive(Educe)]
#[repr(i32)]
#[educe(PartialEq, PartialOrd, Eq)]
pub enum T { Some, B, A { #[educe(PartialOrd(rank = 3i64))] data: A<0> } }

pub fn values() -> Vec<T> { vec![T::Some, T::B, T::A { data: A(0) }, T::A { data: A(1) }, T::A { data: A(7) }] }
pub fn show(x: &T) -> String { #[allow(unused_variables)] match x { T::Some => format!("Some()"), T::B => format!("B()"), T::A { data: p0 } => format!("A({})", sv(p0)) } }
pub fn o_disc(x: &T) -> i128 { match x { T::Some => 0, T::B => 1, T::A { data: _ } => 2 } }
pub fn o_pcmp(a: &T, b: &T) -> Option<Ordering> { match (a, b) { (T::Some, T::Some) => {  Some(Ordering::Equal) }, (T::B, T::B) => {  Some(Ordering::Equal) }, (T::A { data: a0 }, T::A { data: b0 }) => { match ::core::cmp::PartialOrd::partial_cmp(a0, b0) { Some(Ordering::Equal) => (), x => return x } Some(Ordering::Equal) }, _ => Some(o_disc(a).cmp(&o_disc(b))) } }
pub fn run(out: &mut Out) { let vs = values(); for (i, a) in vs.iter().enumerate() { for (j, b) in vs.iter().enumerate() { let e = o_pcmp(a, b); let g = ::core::cmp::PartialOrd::partial_cmp(a, b); out.check(g == e, "ord_61", "partial_cmp", || format!("partial_cmp({}, {}) = {:?} expected {:?}", show(a), show(b), g, e)); } } }
