// ord_61
#![allow(dead_code, unused_variables, unused_mut, unused_imports, non_shorthand_field_patterns, clippy::all)]
use crate::support::*;
use core::cmp::Ordering;
pub mod ty {
    #![deny(warnings)]
    #![allow(dead_code, unused_imports, non_snake_case)]
    use crate::support::{A, B, C, Good, Bad, m_eq, m_cmp, m_pcmp, m_hash, m_fmt, m_clone, m_clone_c, m_into, g_eq, g_cmp, g_pcmp, g_hash, g_fmt};
    use educe::Educe;
#[derive(Educe)]
#[repr(u64)]
#[educe(Eq, PartialEq, PartialOrd, Ord)]
pub enum T { C { #[educe(PartialOrd(rank("-1")))] _a: A<0>, #[educe(PartialOrd = false)] state: A<1>, #[educe(PartialOrd(ignore))] a: A<2>, y: A<3> } = 9223372036854775807 }
}
pub use ty::T;

pub fn values() -> Vec<T> { vec![T::C { _a: A(7), state: A(0), a: A(7), y: A(7) }, T::C { _a: A(0), state: A(7), a: A(1), y: A(0) }, T::C { _a: A(0), state: A(7), a: A(7), y: A(7) }, T::C { _a: A(7), state: A(0), a: A(1), y: A(7) }, T::C { _a: A(7), state: A(0), a: A(7), y: A(1) }, T::C { _a: A(1), state: A(1), a: A(1), y: A(7) }, T::C { _a: A(1), state: A(1), a: A(0), y: A(7) }, T::C { _a: A(7), state: A(1), a: A(0), y: A(7) }, T::C { _a: A(1), state: A(7), a: A(0), y: A(0) }, T::C { _a: A(0), state: A(1), a: A(1), y: A(0) }, T::C { _a: A(7), state: A(0), a: A(1), y: A(0) }, T::C { _a: A(1), state: A(0), a: A(0), y: A(0) }, T::C { _a: A(1), state: A(7), a: A(0), y: A(7) }, T::C { _a: A(7), state: A(7), a: A(7), y: A(7) }, T::C { _a: A(0), state: A(0), a: A(7), y: A(1) }, T::C { _a: A(0), state: A(1), a: A(7), y: A(7) }, T::C { _a: A(7), state: A(7), a: A(0), y: A(7) }, T::C { _a: A(1), state: A(0), a: A(0), y: A(1) }, T::C { _a: A(7), state: A(7), a: A(1), y: A(0) }, T::C { _a: A(0), state: A(0), a: A(7), y: A(0) }, T::C { _a: A(0), state: A(7), a: A(1), y: A(1) }, T::C { _a: A(7), state: A(1), a: A(1), y: A(0) }, T::C { _a: A(0), state: A(1), a: A(0), y: A(1) }, T::C { _a: A(0), state: A(7), a: A(0), y: A(7) }, T::C { _a: A(0), state: A(7), a: A(0), y: A(0) }, T::C { _a: A(1), state: A(0), a: A(0), y: A(7) }, T::C { _a: A(7), state: A(7), a: A(1), y: A(7) }, T::C { _a: A(1), state: A(7), a: A(7), y: A(0) }, T::C { _a: A(1), state: A(0), a: A(7), y: A(0) }, T::C { _a: A(7), state: A(1), a: A(7), y: A(7) }, T::C { _a: A(7), state: A(7), a: A(1), y: A(1) }, T::C { _a: A(7), state: A(1), a: A(0), y: A(0) }, T::C { _a: A(0), state: A(1), a: A(1), y: A(7) }, T::C { _a: A(1), state: A(7), a: A(1), y: A(7) }, T::C { _a: A(0), state: A(7), a: A(1), y: A(7) }, T::C { _a: A(7), state: A(0), a: A(0), y: A(1) }] }
pub fn show(x: &T) -> String { #[allow(unused_variables)] match x { T::C { _a: p0, state: p1, a: p2, y: p3 } => format!("C({},{},{},{})", sv(p0), sv(p1), sv(p2), sv(p3)) } }
pub fn o_disc(x: &T) -> i128 { match x { T::C { _a: _, state: _, a: _, y: _ } => 9223372036854775807 } }
pub fn o_cmp(a: &T, b: &T) -> Ordering { match (a, b) { (T::C { _a: a0, state: a1, a: a2, y: a3 }, T::C { _a: b0, state: b1, a: b2, y: b3 }) => { let c = ::core::cmp::Ord::cmp(a3, b3); if c != Ordering::Equal { return c; } let c = ::core::cmp::Ord::cmp(a0, b0); if c != Ordering::Equal { return c; } Ordering::Equal } } }
pub fn run(out: &mut Out) { let vs = values(); for (i, a) in vs.iter().enumerate() { for (j, b) in vs.iter().enumerate() { let e = o_cmp(a, b); let g = ::core::cmp::Ord::cmp(a, b); out.check(g == e, "ord_61", "cmp", || format!("cmp({}, {}) = {:?} expected {:?}", show(a), show(b), g, e)); let g2 = ::core::cmp::PartialOrd::partial_cmp(a, b); out.check(g2 == Some(e), "ord_61", "partial_is_some_cmp", || format!("partial_cmp({}, {}) = {:?} expected Some({:?})", show(a), show(b), g2, e)); } } }
