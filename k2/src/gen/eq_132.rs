// eq_132
#![allow(dead_code, unused_variables, unused_mut, unused_imports, non_shorthand_field_patterns, clippy::all)]
use crate::support::*;
use educe::Educe;
use core::cmp::Ordering;
#[derive(Educe)]
#[educe(PartialEq)]
pub struct T { #[educe(PartialEq(method = m_eq))] builder: A<0>, #[educe(PartialEq(method = "m_eq"))] c: A<1>, _0: A<2> }
pub fn values() -> Vec<T> { vec![T { builder: A(0), c: A(0), _0: A(0) }, T { builder: A(0), c: A(0), _0: A(1) }, T { builder: A(0), c: A(0), _0: A(7) }, T { builder: A(0), c: A(1), _0: A(0) }, T { builder: A(0), c: A(1), _0: A(1) }, T { builder: A(0), c: A(1), _0: A(7) }, T { builder: A(0), c: A(7), _0: A(0) }, T { builder: A(0), c: A(7), _0: A(1) }, T { builder: A(0), c: A(7), _0: A(7) }, T { builder: A(1), c: A(0), _0: A(0) }, T { builder: A(1), c: A(0), _0: A(1) }, T { builder: A(1), c: A(0), _0: A(7) }, T { builder: A(1), c: A(1), _0: A(0) }, T { builder: A(1), c: A(1), _0: A(1) }, T { builder: A(1), c: A(1), _0: A(7) }, T { builder: A(1), c: A(7), _0: A(0) }, T { builder: A(1), c: A(7), _0: A(1) }, T { builder: A(1), c: A(7), _0: A(7) }, T { builder: A(7), c: A(0), _0: A(0) }, T { builder: A(7), c: A(0), _0: A(1) }, T { builder: A(7), c: A(0), _0: A(7) }, T { builder: A(7), c: A(1), _0: A(0) }, T { builder: A(7), c: A(1), _0: A(1) }, T { builder: A(7), c: A(1), _0: A(7) }, T { builder: A(7), c: A(7), _0: A(0) }, T { builder: A(7), c: A(7), _0: A(1) }, T { builder: A(7), c: A(7), _0: A(7) }] }
pub fn show(x: &T) -> String { #[allow(unused_variables)] match x { T { builder: p0, c: p1, _0: p2 } => format!("T({},{},{})", sv(p0), sv(p1), sv(p2)) } }
pub fn o_eq(a: &T, b: &T) -> bool { match (a, b) { (T { builder: a0, c: a1, _0: a2 }, T { builder: b0, c: b1, _0: b2 }) => m_eq(a0, b0) && m_eq(a1, b1) && (a2 == b2) } }
pub fn run(out: &mut Out) { let vs = values(); for a in &vs { for b in &vs { let e = o_eq(a, b); out.check((a == b) == e, "eq_132", "eq", || format!("{} == {} expected {}", show(a), show(b), e)); out.check((a != b) == !e, "eq_132", "ne", || format!("{} != {} expected {}", show(a), show(b), !e)); } } }
