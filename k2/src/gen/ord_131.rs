// ord_131
#![allow(dead_code, unused_variables, unused_mut, unused_imports, non_shorthand_field_patterns, clippy::all)]
use crate::support::*;
use core::cmp::Ordering;
pub mod ty {
    #![deny(warnings)]
    #![allow(dead_code, unused_imports, non_snake_case)]
    use crate::support::{A, B, C, Good, Bad, m_eq, m_cmp, m_pcmp, m_hash, m_fmt, m_clone, m_clone_c, m_into, g_eq, g_cmp, g_pcmp, g_hash, g_fmt};
    use educe::Educe;
#[derive(Educe)]
#[educe(Debug)]
#[educe(PartialOrd, Eq, PartialEq, Ord)]
pub struct T { #[educe(PartialOrd = false)] pub _type: A<0>, #[educe(Debug = false)] pub builder: A<0>, #[educe(PartialOrd(method = m_cmp, rank = -1), Debug(name = zz4))] pub r#type: A<2>, #[educe(Debug(ignore))] pub arg: A<3> }
}
pub use ty::T;

pub fn values() -> Vec<T> { vec![T { _type: A(1), builder: A(1), r#type: A(0), arg: A(0) }, T { _type: A(1), builder: A(1), r#type: A(7), arg: A(0) }, T { _type: A(7), builder: A(1), r#type: A(0), arg: A(0) }, T { _type: A(0), builder: A(7), r#type: A(7), arg: A(7) }, T { _type: A(7), builder: A(1), r#type: A(7), arg: A(1) }, T { _type: A(1), builder: A(7), r#type: A(1), arg: A(0) }, T { _type: A(7), builder: A(7), r#type: A(1), arg: A(7) }, T { _type: A(7), builder: A(7), r#type: A(7), arg: A(7) }, T { _type: A(7), builder: A(1), r#type: A(7), arg: A(0) }, T { _type: A(7), builder: A(1), r#type: A(1), arg: A(7) }, T { _type: A(1), builder: A(7), r#type: A(7), arg: A(7) }, T { _type: A(0), builder: A(7), r#type: A(1), arg: A(0) }, T { _type: A(0), builder: A(0), r#type: A(1), arg: A(0) }, T { _type: A(1), builder: A(0), r#type: A(0), arg: A(0) }, T { _type: A(1), builder: A(7), r#type: A(1), arg: A(1) }, T { _type: A(1), builder: A(1), r#type: A(1), arg: A(0) }, T { _type: A(7), builder: A(7), r#type: A(1), arg: A(1) }, T { _type: A(0), builder: A(1), r#type: A(0), arg: A(7) }, T { _type: A(7), builder: A(7), r#type: A(0), arg: A(1) }, T { _type: A(0), builder: A(0), r#type: A(0), arg: A(1) }, T { _type: A(1), builder: A(1), r#type: A(7), arg: A(1) }, T { _type: A(7), builder: A(7), r#type: A(7), arg: A(0) }, T { _type: A(0), builder: A(7), r#type: A(0), arg: A(0) }, T { _type: A(1), builder: A(1), r#type: A(0), arg: A(1) }, T { _type: A(0), builder: A(0), r#type: A(1), arg: A(1) }, T { _type: A(1), builder: A(1), r#type: A(1), arg: A(1) }, T { _type: A(0), builder: A(1), r#type: A(1), arg: A(1) }, T { _type: A(1), builder: A(0), r#type: A(7), arg: A(7) }, T { _type: A(0), builder: A(0), r#type: A(7), arg: A(0) }, T { _type: A(0), builder: A(0), r#type: A(0), arg: A(7) }, T { _type: A(7), builder: A(0), r#type: A(0), arg: A(1) }, T { _type: A(0), builder: A(0), r#type: A(7), arg: A(7) }, T { _type: A(0), builder: A(7), r#type: A(7), arg: A(1) }, T { _type: A(0), builder: A(1), r#type: A(0), arg: A(1) }, T { _type: A(7), builder: A(0), r#type: A(7), arg: A(1) }, T { _type: A(0), builder: A(0), r#type: A(0), arg: A(0) }] }
pub fn show(x: &T) -> String { #[allow(unused_variables)] match x { T { _type: p0, builder: p1, r#type: p2, arg: p3 } => format!("T({},{},{},{})", sv(p0), sv(p1), sv(p2), sv(p3)) } }
pub fn o_disc(x: &T) -> i128 { match x { T { _type: _, builder: _, r#type: _, arg: _ } => 0 } }
pub fn o_cmp(a: &T, b: &T) -> Ordering { match (a, b) { (T { _type: a0, builder: a1, r#type: a2, arg: a3 }, T { _type: b0, builder: b1, r#type: b2, arg: b3 }) => { let c = ::core::cmp::Ord::cmp(a1, b1); if c != Ordering::Equal { return c; } let c = ::core::cmp::Ord::cmp(a3, b3); if c != Ordering::Equal { return c; } let c = m_cmp(a2, b2); if c != Ordering::Equal { return c; } Ordering::Equal } } }
pub fn run(out: &mut Out) { let vs = values(); for (i, a) in vs.iter().enumerate() { for (j, b) in vs.iter().enumerate() { let e = o_cmp(a, b); let g = ::core::cmp::Ord::cmp(a, b); out.check(g == e, "ord_131", "cmp", || format!("cmp({}, {}) = {:?} expected {:?}", show(a), show(b), g, e)); let g2 = ::core::cmp::PartialOrd::partial_cmp(a, b); out.check(g2 == Some(e), "ord_131", "partial_is_some_cmp", || format!("partial_cmp({}, {}) = {:?} expected Some({:?})", show(a), show(b), g2, e)); } } }
