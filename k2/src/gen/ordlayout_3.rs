// ordlayout_3
#![allow(dead_code, unused_variables, unused_mut, unused_imports, non_shorthand_field_patterns, clippy::all)]
use crate::support::*;
use core::cmp::Ordering;
pub mod ty {
    #![deny(warnings)]
    #![allow(dead_code, unused_imports, non_snake_case)]
    use crate::support::{A, B, C, Good, Bad, m_eq, m_cmp, m_pcmp, m_hash, m_fmt, m_clone, m_clone_c, m_into, g_eq, g_cmp, g_pcmp, g_hash, g_fmt};
    use educe::Educe;
#[derive(Educe)]
#[educe(Debug)]
#[educe(Ord, PartialEq, Eq)]
pub enum T { C { arg: ::core::num::NonZeroU8, #[educe(Ord(rank = 0x0))] builder: &'static u8 }, Unit { #[educe(Debug(ignore))] arg: Option<u8>, #[educe(Debug(ignore = false))] #[educe(Ord(ignore(false), rank = "-3"))] f: char }, Some(), V1 { #[educe(Ord(ignore = false))] #[educe(Debug(name = zz6))] _y: ::core::num::NonZeroU8, #[educe(Ord(rank = 2i64, ignore(false)))] other: i64, #[educe(Ord(rank = -6))] y: bool } }
}
pub use ty::T;
impl PartialOrd for T { fn partial_cmp(&self, o: &Self) -> Option<Ordering> { Some(::core::cmp::Ord::cmp(self, o)) } }
pub fn values() -> Vec<T> { vec![T::C { arg: ::core::num::NonZeroU8::new(1).unwrap(), builder: &3u8 }, T::C { arg: ::core::num::NonZeroU8::new(1).unwrap(), builder: &200u8 }, T::C { arg: ::core::num::NonZeroU8::new(200).unwrap(), builder: &3u8 }, T::C { arg: ::core::num::NonZeroU8::new(200).unwrap(), builder: &200u8 }, T::Unit { arg: None, f: 'a' }, T::Unit { arg: None, f: 'z' }, T::Unit { arg: Some(0), f: 'a' }, T::Unit { arg: Some(0), f: 'z' }, T::Unit { arg: Some(255), f: 'a' }, T::Unit { arg: Some(255), f: 'z' }, T::Some(), T::V1 { _y: ::core::num::NonZeroU8::new(1).unwrap(), other: 0, y: true }, T::V1 { _y: ::core::num::NonZeroU8::new(1).unwrap(), other: 9, y: true }, T::V1 { _y: ::core::num::NonZeroU8::new(1).unwrap(), other: -5, y: true }, T::V1 { _y: ::core::num::NonZeroU8::new(1).unwrap(), other: 0, y: false }, T::V1 { _y: ::core::num::NonZeroU8::new(200).unwrap(), other: -5, y: true }, T::V1 { _y: ::core::num::NonZeroU8::new(200).unwrap(), other: 9, y: true }, T::V1 { _y: ::core::num::NonZeroU8::new(200).unwrap(), other: -5, y: false }, T::V1 { _y: ::core::num::NonZeroU8::new(1).unwrap(), other: -5, y: false }, T::V1 { _y: ::core::num::NonZeroU8::new(200).unwrap(), other: 9, y: false }] }
pub fn show(x: &T) -> String { #[allow(unused_variables)] match x { T::C { arg: p0, builder: p1 } => format!("C({},{})", sv(p0), sv(p1)), T::Unit { arg: p0, f: p1 } => format!("Unit({},{})", sv(p0), sv(p1)), T::Some() => format!("Some()"), T::V1 { _y: p0, other: p1, y: p2 } => format!("V1({},{},{})", sv(p0), sv(p1), sv(p2)) } }
pub fn o_disc(x: &T) -> i128 { match x { T::C { arg: _, builder: _ } => 0, T::Unit { arg: _, f: _ } => 1, T::Some() => 2, T::V1 { _y: _, other: _, y: _ } => 3 } }
pub fn o_cmp(a: &T, b: &T) -> Ordering { match (a, b) { (T::C { arg: a0, builder: a1 }, T::C { arg: b0, builder: b1 }) => { let c = ::core::cmp::Ord::cmp(a0, b0); if c != Ordering::Equal { return c; } let c = ::core::cmp::Ord::cmp(a1, b1); if c != Ordering::Equal { return c; } Ordering::Equal }, (T::Unit { arg: a0, f: a1 }, T::Unit { arg: b0, f: b1 }) => { let c = ::core::cmp::Ord::cmp(a0, b0); if c != Ordering::Equal { return c; } let c = ::core::cmp::Ord::cmp(a1, b1); if c != Ordering::Equal { return c; } Ordering::Equal }, (T::Some(), T::Some()) => {  Ordering::Equal }, (T::V1 { _y: a0, other: a1, y: a2 }, T::V1 { _y: b0, other: b1, y: b2 }) => { let c = ::core::cmp::Ord::cmp(a0, b0); if c != Ordering::Equal { return c; } let c = ::core::cmp::Ord::cmp(a2, b2); if c != Ordering::Equal { return c; } let c = ::core::cmp::Ord::cmp(a1, b1); if c != Ordering::Equal { return c; } Ordering::Equal }, _ => o_disc(a).cmp(&o_disc(b)) } }
#[repr(C)] pub struct Wrap { pub pre: u8, pub x: T, pub post: [u8; 9] }
pub fn wrap(i: usize, n: u8) -> Wrap { Wrap { pre: n, x: values().swap_remove(i), post: [n; 9] } }
pub fn run(out: &mut Out) { let vs = values(); for (i, a) in vs.iter().enumerate() { for (j, b) in vs.iter().enumerate() { let e = o_cmp(a, b); let g = ::core::cmp::Ord::cmp(a, b); out.check(g == e, "ordlayout_3", "cmp", || format!("cmp({}, {}) = {:?} expected {:?}", show(a), show(b), g, e)); for n in [0u8, 1, 0x7f, 0x80, 0xff] { let wa = wrap(i, n); let wb = wrap(j, !n); let g = ::core::cmp::Ord::cmp(&wa.x, &wb.x); let e = o_cmp(a, b); out.check(g == e, "ordlayout_3", "cmp_neighbours", || format!("cmp({}, {}) with neighbour bytes {} = {:?} expected {:?}", show(a), show(b), n, g, e)); } } } }
