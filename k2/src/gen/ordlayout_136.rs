// ordlayout_136
#![allow(dead_code, unused_variables, unused_mut, unused_imports, non_shorthand_field_patterns, clippy::all)]
use crate::support::*;
use educe::Educe;
use core::cmp::Ordering;
#[derive(Educe)]
#[educe(PartialEq, Ord, PartialOrd, Eq)]
pub enum T { Unit { #[educe(PartialOrd(rank = "6"))] c: i64, source: bool }, V1(&'static u8, #[educe(PartialOrd(rank = 4i64))] Option<u8>), A(#[educe(PartialOrd(rank(7)))] &'static u8) }

pub fn values() -> Vec<T> { vec![T::Unit { c: -5, source: false }, T::Unit { c: -5, source: true }, T::Unit { c: 0, source: false }, T::Unit { c: 0, source: true }, T::Unit { c: 9, source: false }, T::Unit { c: 9, source: true }, T::V1(&3u8, None), T::V1(&3u8, Some(0)), T::V1(&3u8, Some(255)), T::V1(&200u8, None), T::V1(&200u8, Some(0)), T::V1(&200u8, Some(255)), T::A(&3u8), T::A(&200u8)] }
pub fn show(x: &T) -> String { #[allow(unused_variables)] match x { T::Unit { c: p0, source: p1 } => format!("Unit({},{})", sv(p0), sv(p1)), T::V1(p0, p1) => format!("V1({},{})", sv(p0), sv(p1)), T::A(p0) => format!("A({})", sv(p0)) } }
pub fn o_disc(x: &T) -> i128 { match x { T::Unit { c: _, source: _ } => 0, T::V1(_, _) => 1, T::A(_) => 2 } }
pub fn o_cmp(a: &T, b: &T) -> Ordering { match (a, b) { (T::Unit { c: a0, source: a1 }, T::Unit { c: b0, source: b1 }) => { let c = ::core::cmp::Ord::cmp(a1, b1); if c != Ordering::Equal { return c; } let c = ::core::cmp::Ord::cmp(a0, b0); if c != Ordering::Equal { return c; } Ordering::Equal }, (T::V1(a0, a1), T::V1(b0, b1)) => { let c = ::core::cmp::Ord::cmp(a0, b0); if c != Ordering::Equal { return c; } let c = ::core::cmp::Ord::cmp(a1, b1); if c != Ordering::Equal { return c; } Ordering::Equal }, (T::A(a0), T::A(b0)) => { let c = ::core::cmp::Ord::cmp(a0, b0); if c != Ordering::Equal { return c; } Ordering::Equal }, _ => o_disc(a).cmp(&o_disc(b)) } }
#[repr(C)] pub struct Wrap { pub pre: u8, pub x: T, pub post: [u8; 9] }
pub fn wrap(i: usize, n: u8) -> Wrap { Wrap { pre: n, x: values().swap_remove(i), post: [n; 9] } }
pub fn run(out: &mut Out) { let vs = values(); for (i, a) in vs.iter().enumerate() { for (j, b) in vs.iter().enumerate() { let e = o_cmp(a, b); let g = ::core::cmp::Ord::cmp(a, b); out.check(g == e, "ordlayout_136", "cmp", || format!("cmp({}, {}) = {:?} expected {:?}", show(a), show(b), g, e)); let g2 = ::core::cmp::PartialOrd::partial_cmp(a, b); out.check(g2 == Some(e), "ordlayout_136", "partial_is_some_cmp", || format!("partial_cmp({}, {}) = {:?} expected Some({:?})", show(a), show(b), g2, e)); for n in [0u8, 1, 0x7f, 0x80, 0xff] { let wa = wrap(i, n); let wb = wrap(j, !n); let g = ::core::cmp::Ord::cmp(&wa.x, &wb.x); let e = o_cmp(a, b); out.check(g == e, "ordlayout_136", "cmp_neighbours", || format!("cmp({}, {}) with neighbour bytes {} = {:?} expected {:?}", show(a), show(b), n, g, e)); } } } }
