// eq_142
#![allow(dead_code, unused_variables, unused_mut, unused_imports, non_shorthand_field_patterns, clippy::all)]
use crate::support::*;
use educe::Educe;
use core::cmp::Ordering;
#[derive(Educe)]
#[educe(PartialEq, Eq)]
pub enum T { C { #[educe(Eq(ignore))] c: A<0>, #[educe(PartialEq = true)] arg: A<0>, #[educe(PartialEq(method(m_eq)))] x: A<2> } }
pub fn values() -> Vec<T> { vec![T::C { c: A(0), arg: A(0), x: A(0) }, T::C { c: A(0), arg: A(0), x: A(1) }, T::C { c: A(0), arg: A(0), x: A(7) }, T::C { c: A(0), arg: A(1), x: A(0) }, T::C { c: A(0), arg: A(1), x: A(1) }, T::C { c: A(0), arg: A(1), x: A(7) }, T::C { c: A(0), arg: A(7), x: A(0) }, T::C { c: A(0), arg: A(7), x: A(1) }, T::C { c: A(0), arg: A(7), x: A(7) }, T::C { c: A(1), arg: A(0), x: A(0) }, T::C { c: A(1), arg: A(0), x: A(1) }, T::C { c: A(1), arg: A(0), x: A(7) }, T::C { c: A(1), arg: A(1), x: A(0) }, T::C { c: A(1), arg: A(1), x: A(1) }, T::C { c: A(1), arg: A(1), x: A(7) }, T::C { c: A(1), arg: A(7), x: A(0) }, T::C { c: A(1), arg: A(7), x: A(1) }, T::C { c: A(1), arg: A(7), x: A(7) }, T::C { c: A(7), arg: A(0), x: A(0) }, T::C { c: A(7), arg: A(0), x: A(1) }, T::C { c: A(7), arg: A(0), x: A(7) }, T::C { c: A(7), arg: A(1), x: A(0) }, T::C { c: A(7), arg: A(1), x: A(1) }, T::C { c: A(7), arg: A(1), x: A(7) }, T::C { c: A(7), arg: A(7), x: A(0) }, T::C { c: A(7), arg: A(7), x: A(1) }, T::C { c: A(7), arg: A(7), x: A(7) }] }
pub fn show(x: &T) -> String { #[allow(unused_variables)] match x { T::C { c: p0, arg: p1, x: p2 } => format!("C({},{},{})", sv(p0), sv(p1), sv(p2)) } }
pub fn o_eq(a: &T, b: &T) -> bool { match (a, b) { (T::C { c: a0, arg: a1, x: a2 }, T::C { c: b0, arg: b1, x: b2 }) => (a1 == b1) && m_eq(a2, b2) } }
pub fn run(out: &mut Out) { let vs = values(); for a in &vs { for b in &vs { let e = o_eq(a, b); out.check((a == b) == e, "eq_142", "eq", || format!("{} == {} expected {}", show(a), show(b), e)); out.check((a != b) == !e, "eq_142", "ne", || format!("{} != {} expected {}", show(a), show(b), !e)); } } }
