// ord_8
#![allow(dead_code, unused_variables, unused_mut, unused_imports, non_shorthand_field_patterns, clippy::all)]
use crate::support::*;
use educe::Educe;
use core::cmp::Ordering;
#[derive(Educe)]
#[educe(PartialEq, PartialOrd, Eq)]
pub struct T(#[educe(PartialOrd(ignore))] A<0>, #[educe(PartialOrd(method = m_pcmp))] A<0>);

pub fn values() -> Vec<T> { vec![T(A(0), A(0)), T(A(0), A(1)), T(A(0), A(7)), T(A(1), A(0)), T(A(1), A(1)), T(A(1), A(7)), T(A(7), A(0)), T(A(7), A(1)), T(A(7), A(7))] }
pub fn show(x: &T) -> String { #[allow(unused_variables)] match x { T(p0, p1) => format!("T({},{})", sv(p0), sv(p1)) } }
pub fn o_disc(x: &T) -> i128 { match x { T(_, _) => 0 } }
pub fn o_pcmp(a: &T, b: &T) -> Option<Ordering> { match (a, b) { (T(a0, a1), T(b0, b1)) => { match m_pcmp(a1, b1) { Some(Ordering::Equal) => (), x => return x } Some(Ordering::Equal) } } }
pub fn run(out: &mut Out) { let vs = values(); for (i, a) in vs.iter().enumerate() { for (j, b) in vs.iter().enumerate() { let e = o_pcmp(a, b); let g = ::core::cmp::PartialOrd::partial_cmp(a, b); out.check(g == e, "ord_8", "partial_cmp", || format!("partial_cmp({}, {}) = {:?} expected {:?}", show(a), show(b), g, e)); } } }
