// ordlayout_147
#![allow(dead_code, unused_variables, unused_mut, unused_imports, non_shorthand_field_patterns, clippy::all)]
use crate::support::*;
use educe::Educe;
use core::cmp::Ordering;
#[derive(Educe)]
#[repr(i8)]
#[educe(PartialEq, PartialOrd, Ord, Eq)]
pub enum T { Zed, None(u8, #[educe(Ord(rank = "+6"))] Option<u8>), B, Unit }

pub fn values() -> Vec<T> { vec![T::Zed, T::None(0, None), T::None(0, Some(0)), T::None(0, Some(255)), T::None(100, None), T::None(100, Some(0)), T::None(100, Some(255)), T::None(200, None), T::None(200, Some(0)), T::None(200, Some(255)), T::B, T::Unit] }
pub fn show(x: &T) -> String { #[allow(unused_variables)] match x { T::Zed => format!("Zed()"), T::None(p0, p1) => format!("None({},{})", sv(p0), sv(p1)), T::B => format!("B()"), T::Unit => format!("Unit()") } }
pub fn o_disc(x: &T) -> i128 { match x { T::Zed => 0, T::None(_, _) => 1, T::B => 2, T::Unit => 3 } }
pub fn o_cmp(a: &T, b: &T) -> Ordering { match (a, b) { (T::Zed, T::Zed) => {  Ordering::Equal }, (T::None(a0, a1), T::None(b0, b1)) => { let c = ::core::cmp::Ord::cmp(a0, b0); if c != Ordering::Equal { return c; } let c = ::core::cmp::Ord::cmp(a1, b1); if c != Ordering::Equal { return c; } Ordering::Equal }, (T::B, T::B) => {  Ordering::Equal }, (T::Unit, T::Unit) => {  Ordering::Equal }, _ => o_disc(a).cmp(&o_disc(b)) } }
#[repr(C)] pub struct Wrap { pub pre: u8, pub x: T, pub post: [u8; 9] }
pub fn wrap(i: usize, n: u8) -> Wrap { Wrap { pre: n, x: values().swap_remove(i), post: [n; 9] } }
pub fn run(out: &mut Out) { let vs = values(); for (i, a) in vs.iter().enumerate() { for (j, b) in vs.iter().enumerate() { let e = o_cmp(a, b); let g = ::core::cmp::Ord::cmp(a, b); out.check(g == e, "ordlayout_147", "cmp", || format!("cmp({}, {}) = {:?} expected {:?}", show(a), show(b), g, e)); let g2 = ::core::cmp::PartialOrd::partial_cmp(a, b); out.check(g2 == Some(e), "ordlayout_147", "partial_is_some_cmp", || format!("partial_cmp({}, {}) = {:?} expected Some({:?})", show(a), show(b), g2, e)); for n in [0u8, 1, 0x7f, 0x80, 0xff] { let wa = wrap(i, n); let wb = wrap(j, !n); let g = ::core::cmp::Ord::cmp(&wa.x, &wb.x); let e = o_cmp(a, b); out.check(g == e, "ordlayout_147", "cmp_neighbours", || format!("cmp({}, {}) with neighbour bytes {} = {:?} expected {:?}", show(a), show(b), n, g, e)); } } } }
