// into_146
#![allow(dead_code, unused_variables, unused_mut, unused_imports, non_shorthand_field_patterns, clippy::all)]
use crate::support::*;
use educe::Educe;
use core::cmp::Ordering;
#[derive(Educe)]
#[educe(Into(A<1>), Into(A<0>), Into(B<2>))]
pub struct T { #[educe(Into(A<1>))] data: A<1>, #[educe(Into(B<2>, method = m_into))] size: A<0>, state: A<1> }
pub fn values() -> Vec<T> { vec![T { data: A(1), size: A(1), state: A(7) }, T { data: A(0), size: A(0), state: A(1) }, T { data: A(7), size: A(1), state: A(1) }, T { data: A(0), size: A(0), state: A(0) }, T { data: A(7), size: A(1), state: A(7) }, T { data: A(1), size: A(7), state: A(0) }, T { data: A(0), size: A(1), state: A(1) }, T { data: A(0), size: A(1), state: A(7) }, T { data: A(7), size: A(0), state: A(0) }, T { data: A(1), size: A(1), state: A(0) }, T { data: A(7), size: A(0), state: A(1) }, T { data: A(0), size: A(1), state: A(0) }] }
pub fn show(x: &T) -> String { #[allow(unused_variables)] match x { T { data: p0, size: p1, state: p2 } => format!("T({},{},{})", sv(p0), sv(p1), sv(p2)) } }
pub fn o_into_0(x: T) -> A<1> { match x { T { data: p0, size: _, state: _ } => p0 } }
pub fn o_into_1(x: T) -> A<0> { match x { T { data: _, size: p1, state: _ } => p1 } }
pub fn o_into_2(x: T) -> B<2> { match x { T { data: _, size: p1, state: _ } => m_into(p1) } }
pub fn run(out: &mut Out) { let n = values().len(); for i in 0..n { let a = values().swap_remove(i); let shown = show(&a); let g: A<1> = ::core::convert::Into::into(a); let e = o_into_0(values().swap_remove(i)); out.check(sv(&g) == sv(&e), "into_146", "into", || format!("Into::<A<1>>::into({}) = {} expected {}", shown, sv(&g), sv(&e))); } for i in 0..n { let a = values().swap_remove(i); let shown = show(&a); let g: A<0> = ::core::convert::Into::into(a); let e = o_into_1(values().swap_remove(i)); out.check(sv(&g) == sv(&e), "into_146", "into", || format!("Into::<A<0>>::into({}) = {} expected {}", shown, sv(&g), sv(&e))); } for i in 0..n { let a = values().swap_remove(i); let shown = show(&a); let g: B<2> = ::core::convert::Into::into(a); let e = o_into_2(values().swap_remove(i)); out.check(sv(&g) == sv(&e), "into_146", "into", || format!("Into::<B<2>>::into({}) = {} expected {}", shown, sv(&g), sv(&e))); } }
