// hash_4
#![allow(dead_code, unused_variables, unused_mut, unused_imports, non_shorthand_field_patterns, clippy::all)]
use crate::support::*;
use educe::Educe;
use core::cmp::Ordering;
#[derive(Educe)]
#[educe(Hash)]
pub enum T { None(A<0>, #[educe(Hash(ignore(true)))] A<0>), Some(#[educe(Hash(method = m_hash))] A<0>, A<0>) }
pub fn values() -> Vec<T> { vec![T::None(A(0), A(0)), T::None(A(0), A(1)), T::None(A(0), A(7)), T::None(A(1), A(0)), T::None(A(1), A(1)), T::None(A(1), A(7)), T::None(A(7), A(0)), T::None(A(7), A(1)), T::None(A(7), A(7)), T::Some(A(0), A(0)), T::Some(A(0), A(1)), T::Some(A(0), A(7)), T::Some(A(1), A(0)), T::Some(A(1), A(1)), T::Some(A(1), A(7)), T::Some(A(7), A(0)), T::Some(A(7), A(1)), T::Some(A(7), A(7))] }
pub fn show(x: &T) -> String { #[allow(unused_variables)] match x { T::None(p0, p1) => format!("None({},{})", sv(p0), sv(p1)), T::Some(p0, p1) => format!("Some({},{})", sv(p0), sv(p1)) } }
pub fn o_hash(x: &T) -> Vec<String> { let mut e = Rec::default(); match x { T::None(p0, p1) => { ::core::hash::Hash::hash(&0usize, &mut e); ::core::hash::Hash::hash(p0, &mut e); }, T::Some(p0, p1) => { ::core::hash::Hash::hash(&1usize, &mut e); m_hash(p0, &mut e); ::core::hash::Hash::hash(p1, &mut e); } } e.0 }
pub fn run(out: &mut Out) { let vs = values(); for a in &vs { let mut g = Rec::default(); ::core::hash::Hash::hash(a, &mut g); let e = o_hash(a); out.check(g.0 == e, "hash_4", "hash", || format!("hash({}) fed {:?} expected {:?}", show(a), g.0, e)); } }
