// hash_4
#![allow(dead_code, unused_variables, unused_mut, unused_imports, non_shorthand_field_patterns, clippy::all)]
use crate::support::*;
use educe::Educe;
use core::cmp::Ordering;
#[derive(Educe)]
#[educe(Hash)]
pub enum T { A, Zed { #[educe(Hash(ignore = true))] _0: A<0>, #[educe(Hash(method("m_hash")))] size: A<0>, other: A<2> } }
pub fn values() -> Vec<T> { vec![T::A, T::Zed { _0: A(0), size: A(0), other: A(7) }, T::Zed { _0: A(0), size: A(7), other: A(1) }, T::Zed { _0: A(1), size: A(0), other: A(0) }, T::Zed { _0: A(1), size: A(7), other: A(0) }, T::Zed { _0: A(7), size: A(7), other: A(0) }, T::Zed { _0: A(0), size: A(0), other: A(1) }, T::Zed { _0: A(1), size: A(1), other: A(1) }, T::Zed { _0: A(1), size: A(1), other: A(7) }, T::Zed { _0: A(0), size: A(7), other: A(7) }, T::Zed { _0: A(7), size: A(1), other: A(1) }, T::Zed { _0: A(1), size: A(7), other: A(1) }, T::Zed { _0: A(0), size: A(1), other: A(0) }, T::Zed { _0: A(7), size: A(0), other: A(1) }, T::Zed { _0: A(7), size: A(1), other: A(7) }, T::Zed { _0: A(7), size: A(0), other: A(0) }, T::Zed { _0: A(7), size: A(7), other: A(7) }, T::Zed { _0: A(1), size: A(7), other: A(7) }, T::Zed { _0: A(7), size: A(7), other: A(1) }, T::Zed { _0: A(0), size: A(1), other: A(7) }, T::Zed { _0: A(7), size: A(0), other: A(7) }, T::Zed { _0: A(1), size: A(0), other: A(1) }, T::Zed { _0: A(0), size: A(7), other: A(0) }, T::Zed { _0: A(7), size: A(1), other: A(0) }, T::Zed { _0: A(0), size: A(0), other: A(0) }] }
pub fn show(x: &T) -> String { #[allow(unused_variables)] match x { T::A => format!("A()"), T::Zed { _0: p0, size: p1, other: p2 } => format!("Zed({},{},{})", sv(p0), sv(p1), sv(p2)) } }
pub fn o_hash(x: &T) -> Vec<String> { let mut e = Rec::default(); match x { T::A => { ::core::hash::Hash::hash(&0usize, &mut e); }, T::Zed { _0: p0, size: p1, other: p2 } => { ::core::hash::Hash::hash(&1usize, &mut e); m_hash(p1, &mut e); ::core::hash::Hash::hash(p2, &mut e); } } e.0 }
pub fn run(out: &mut Out) { let vs = values(); for a in &vs { let mut g = Rec::default(); ::core::hash::Hash::hash(a, &mut g); let e = o_hash(a); out.check(g.0 == e, "hash_4", "hash", || format!("hash({}) fed {:?} expected {:?}", show(a), g.0, e)); } }
