// debug_10
#![allow(dead_code, unused_variables, unused_mut, unused_imports, non_shorthand_field_patterns, clippy::all)]
use crate::support::*;
use educe::Educe;
use core::cmp::Ordering;
#[derive(Educe)]
#[educe(Debug(named_field(false)))]
pub struct T { #[educe(Debug(ignore))] a: A<0>, #[educe(Debug(ignore))] size: A<1> }
pub fn values() -> Vec<T> { vec![T { a: A(0), size: A(0) }, T { a: A(0), size: A(1) }, T { a: A(0), size: A(7) }, T { a: A(1), size: A(0) }, T { a: A(1), size: A(1) }, T { a: A(1), size: A(7) }, T { a: A(7), size: A(0) }, T { a: A(7), size: A(1) }, T { a: A(7), size: A(7) }] }
pub fn show(x: &T) -> String { #[allow(unused_variables)] match x { T { a: p0, size: p1 } => format!("T({},{})", sv(p0), sv(p1)) } }
pub fn o_fmt(x: &T, f: &mut ::core::fmt::Formatter<'_>) -> ::core::fmt::Result { match x { T { a: p0, size: p1 } => f.debug_tuple("T").finish() } }

pub fn run(out: &mut Out) { let vs = values(); for a in &vs { let g = format!("{:?}", a); let e = format!("{:?}", Fm(|f: &mut ::core::fmt::Formatter<'_>| o_fmt(a, f))); out.check(g == e, "debug_10", "debug", || format!("{{:?}} of {} = {:?} expected {:?}", show(a), g, e)); let g = format!("{:#?}", a); let e = format!("{:#?}", Fm(|f: &mut ::core::fmt::Formatter<'_>| o_fmt(a, f))); out.check(g == e, "debug_10", "debug_alt", || format!("{{:#?}} of {} = {:?} expected {:?}", show(a), g, e)); let g = format!("{:8?}", a); let e = format!("{:8?}", Fm(|f: &mut ::core::fmt::Formatter<'_>| o_fmt(a, f))); out.check(g == e, "debug_10", "debug_width", || format!("{{:8?}} of {} = {:?} expected {:?}", show(a), g, e)); }  }
