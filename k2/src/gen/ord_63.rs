// ord_63
#![allow(dead_code, unused_variables, unused_mut, unused_imports, non_shorthand_field_patterns, clippy::all)]
use crate::support::*;
use educe::Educe;
use core::cmp::Ordering;
#[derive(Educe)]
#[educe(Ord, Eq, PartialEq, PartialOrd)]
pub enum T { Unit, B(#[educe(PartialOrd(method(m_cmp)))] A<0>, #[educe(PartialOrd(rank = 4, method = "m_cmp"))] A<0>), C(A<0>, #[educe(PartialOrd(method(m_cmp)))] A<1>) }

pub fn values() -> Vec<T> { vec![T::Unit, T::B(A(0), A(0)), T::B(A(0), A(1)), T::B(A(0), A(7)), T::B(A(1), A(0)), T::B(A(1), A(1)), T::B(A(1), A(7)), T::B(A(7), A(0)), T::B(A(7), A(1)), T::B(A(7), A(7)), T::C(A(0), A(0)), T::C(A(0), A(1)), T::C(A(0), A(7)), T::C(A(1), A(0)), T::C(A(1), A(1)), T::C(A(1), A(7)), T::C(A(7), A(0)), T::C(A(7), A(1)), T::C(A(7), A(7))] }
pub fn show(x: &T) -> String { #[allow(unused_variables)] match x { T::Unit => format!("Unit()"), T::B(p0, p1) => format!("B({},{})", sv(p0), sv(p1)), T::C(p0, p1) => format!("C({},{})", sv(p0), sv(p1)) } }
pub fn o_disc(x: &T) -> i128 { match x { T::Unit => 0, T::B(_, _) => 1, T::C(_, _) => 2 } }
pub fn o_cmp(a: &T, b: &T) -> Ordering { match (a, b) { (T::Unit, T::Unit) => {  Ordering::Equal }, (T::B(a0, a1), T::B(b0, b1)) => { let c = m_cmp(a0, b0); if c != Ordering::Equal { return c; } let c = m_cmp(a1, b1); if c != Ordering::Equal { return c; } Ordering::Equal }, (T::C(a0, a1), T::C(b0, b1)) => { let c = ::core::cmp::Ord::cmp(a0, b0); if c != Ordering::Equal { return c; } let c = m_cmp(a1, b1); if c != Ordering::Equal { return c; } Ordering::Equal }, _ => o_disc(a).cmp(&o_disc(b)) } }
pub fn run(out: &mut Out) { let vs = values(); for (i, a) in vs.iter().enumerate() { for (j, b) in vs.iter().enumerate() { let e = o_cmp(a, b); let g = ::core::cmp::Ord::cmp(a, b); out.check(g == e, "ord_63", "cmp", || format!("cmp({}, {}) = {:?} expected {:?}", show(a), show(b), g, e)); let g2 = ::core::cmp::PartialOrd::partial_cmp(a, b); out.check(g2 == Some(e), "ord_63", "partial_is_some_cmp", || format!("partial_cmp({}, {}) = {:?} expected Some({:?})", show(a), show(b), g2, e)); } } }
