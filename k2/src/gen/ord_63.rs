// ord_63
#![allow(dead_code, unused_variables, unused_mut, unused_imports, non_shorthand_field_patterns, clippy::all)]
use crate::support::*;
use core::cmp::Ordering;
pub mod ty {
    #![deny(warnings)]
    #![allow(dead_code, unused_imports, non_snake_case)]
    use crate::support::{A, B, C, Good, Bad, m_eq, m_cmp, m_pcmp, m_hash, m_fmt, m_clone, m_clone_c, m_into, g_eq, g_cmp, g_pcmp, g_hash, g_fmt};
    use educe::Educe;
#[derive(Educe)]
#[repr(i128)]
#[educe(Eq, PartialEq, Ord, PartialOrd)]
#[educe(Debug)]
pub enum T { B { #[educe(PartialOrd(rank = 5i64, method = m_cmp))] a: A<0>, #[educe(PartialOrd(rank = "+0"))] f: A<1> } = -9223372036854775809, V1 }
}
pub use ty::T;

pub fn values() -> Vec<T> { vec![T::B { a: A(0), f: A(0) }, T::B { a: A(0), f: A(1) }, T::B { a: A(0), f: A(7) }, T::B { a: A(1), f: A(0) }, T::B { a: A(1), f: A(1) }, T::B { a: A(1), f: A(7) }, T::B { a: A(7), f: A(0) }, T::B { a: A(7), f: A(1) }, T::B { a: A(7), f: A(7) }, T::V1] }
pub fn show(x: &T) -> String { #[allow(unused_variables)] match x { T::B { a: p0, f: p1 } => format!("B({},{})", sv(p0), sv(p1)), T::V1 => format!("V1()") } }
pub fn o_disc(x: &T) -> i128 { match x { T::B { a: _, f: _ } => -9223372036854775809, T::V1 => -9223372036854775808 } }
pub fn o_cmp(a: &T, b: &T) -> Ordering { match (a, b) { (T::B { a: a0, f: a1 }, T::B { a: b0, f: b1 }) => { let c = ::core::cmp::Ord::cmp(a1, b1); if c != Ordering::Equal { return c; } let c = m_cmp(a0, b0); if c != Ordering::Equal { return c; } Ordering::Equal }, (T::V1, T::V1) => {  Ordering::Equal }, _ => o_disc(a).cmp(&o_disc(b)) } }
pub fn run(out: &mut Out) { let vs = values(); for (i, a) in vs.iter().enumerate() { for (j, b) in vs.iter().enumerate() { let e = o_cmp(a, b); let g = ::core::cmp::Ord::cmp(a, b); out.check(g == e, "ord_63", "cmp", || format!("cmp({}, {}) = {:?} expected {:?}", show(a), show(b), g, e)); let g2 = ::core::cmp::PartialOrd::partial_cmp(a, b); out.check(g2 == Some(e), "ord_63", "partial_is_some_cmp", || format!("partial_cmp({}, {}) = {:?} expected Some({:?})", show(a), show(b), g2, e)); } } }
