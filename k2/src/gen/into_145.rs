// into_145
#![allow(dead_code, unused_variables, unused_mut, unused_imports, non_shorthand_field_patterns, clippy::all)]
use crate::support::*;
use educe::Educe;
use core::cmp::Ordering;
#[derive(Educe)]
#[educe(Into(B<2>))]
pub enum T { V1 { #[educe(Into(B<2>))] f: A<0>, b: A<1> } }
pub fn values() -> Vec<T> { vec![T::V1 { f: A(0), b: A(0) }, T::V1 { f: A(0), b: A(1) }, T::V1 { f: A(0), b: A(7) }, T::V1 { f: A(1), b: A(0) }, T::V1 { f: A(1), b: A(1) }, T::V1 { f: A(1), b: A(7) }, T::V1 { f: A(7), b: A(0) }, T::V1 { f: A(7), b: A(1) }, T::V1 { f: A(7), b: A(7) }] }
pub fn show(x: &T) -> String { #[allow(unused_variables)] match x { T::V1 { f: p0, b: p1 } => format!("V1({},{})", sv(p0), sv(p1)) } }
pub fn o_into_0(x: T) -> B<2> { match x { T::V1 { f: p0, b: _ } => ::core::convert::Into::into(p0) } }
pub fn run(out: &mut Out) { let n = values().len(); for i in 0..n { let a = values().swap_remove(i); let shown = show(&a); let g: B<2> = ::core::convert::Into::into(a); let e = o_into_0(values().swap_remove(i)); out.check(sv(&g) == sv(&e), "into_145", "into", || format!("Into::<B<2>>::into({}) = {} expected {}", shown, sv(&g), sv(&e))); } }
