// ordlayout_25
#![allow(dead_code, unused_variables, unused_mut, unused_imports, non_shorthand_field_patterns, clippy::all)]
use crate::support::*;
use core::cmp::Ordering;
pub mod ty {
    #![deny(warnings)]
    #![allow(dead_code, unused_imports, non_snake_case)]
    use crate::support::{A, B, C, Good, Bad, m_eq, m_cmp, m_pcmp, m_hash, m_fmt, m_clone, m_clone_c, m_into, g_eq, g_cmp, g_pcmp, g_hash, g_fmt};
    use educe::Educe;
#[derive(Educe)]
#[educe(Eq, PartialEq, PartialOrd, Ord)]
pub enum T { B { #[educe(Ord(ignore = false, rank = 5))] c: u8, #[educe(Ord(rank = "+3"))] size: Option<u8>, b: ::core::num::NonZeroU8 } }
}
pub use ty::T;

pub fn values() -> Vec<T> { vec![T::B { c: 0, size: None, b: ::core::num::NonZeroU8::new(1).unwrap() }, T::B { c: 0, size: None, b: ::core::num::NonZeroU8::new(200).unwrap() }, T::B { c: 0, size: Some(0), b: ::core::num::NonZeroU8::new(1).unwrap() }, T::B { c: 0, size: Some(0), b: ::core::num::NonZeroU8::new(200).unwrap() }, T::B { c: 0, size: Some(255), b: ::core::num::NonZeroU8::new(1).unwrap() }, T::B { c: 0, size: Some(255), b: ::core::num::NonZeroU8::new(200).unwrap() }, T::B { c: 100, size: None, b: ::core::num::NonZeroU8::new(1).unwrap() }, T::B { c: 100, size: None, b: ::core::num::NonZeroU8::new(200).unwrap() }, T::B { c: 100, size: Some(0), b: ::core::num::NonZeroU8::new(1).unwrap() }, T::B { c: 100, size: Some(0), b: ::core::num::NonZeroU8::new(200).unwrap() }, T::B { c: 100, size: Some(255), b: ::core::num::NonZeroU8::new(1).unwrap() }, T::B { c: 100, size: Some(255), b: ::core::num::NonZeroU8::new(200).unwrap() }, T::B { c: 200, size: None, b: ::core::num::NonZeroU8::new(1).unwrap() }, T::B { c: 200, size: None, b: ::core::num::NonZeroU8::new(200).unwrap() }, T::B { c: 200, size: Some(0), b: ::core::num::NonZeroU8::new(1).unwrap() }, T::B { c: 200, size: Some(0), b: ::core::num::NonZeroU8::new(200).unwrap() }, T::B { c: 200, size: Some(255), b: ::core::num::NonZeroU8::new(1).unwrap() }, T::B { c: 200, size: Some(255), b: ::core::num::NonZeroU8::new(200).unwrap() }] }
pub fn show(x: &T) -> String { #[allow(unused_variables)] match x { T::B { c: p0, size: p1, b: p2 } => format!("B({},{},{})", sv(p0), sv(p1), sv(p2)) } }
pub fn o_disc(x: &T) -> i128 { match x { T::B { c: _, size: _, b: _ } => 0 } }
pub fn o_cmp(a: &T, b: &T) -> Ordering { match (a, b) { (T::B { c: a0, size: a1, b: a2 }, T::B { c: b0, size: b1, b: b2 }) => { let c = ::core::cmp::Ord::cmp(a2, b2); if c != Ordering::Equal { return c; } let c = ::core::cmp::Ord::cmp(a1, b1); if c != Ordering::Equal { return c; } let c = ::core::cmp::Ord::cmp(a0, b0); if c != Ordering::Equal { return c; } Ordering::Equal } } }
#[repr(C)] pub struct Wrap { pub pre: u8, pub x: T, pub post: [u8; 9] }
pub fn wrap(i: usize, n: u8) -> Wrap { Wrap { pre: n, x: values().swap_remove(i), post: [n; 9] } }
pub fn run(out: &mut Out) { let vs = values(); for (i, a) in vs.iter().enumerate() { for (j, b) in vs.iter().enumerate() { let e = o_cmp(a, b); let g = ::core::cmp::Ord::cmp(a, b); out.check(g == e, "ordlayout_25", "cmp", || format!("cmp({}, {}) = {:?} expected {:?}", show(a), show(b), g, e)); let g2 = ::core::cmp::PartialOrd::partial_cmp(a, b); out.check(g2 == Some(e), "ordlayout_25", "partial_is_some_cmp", || format!("partial_cmp({}, {}) = {:?} expected Some({:?})", show(a), show(b), g2, e)); for n in [0u8, 1, 0x7f, 0x80, 0xff] { let wa = wrap(i, n); let wb = wrap(j, !n); let g = ::core::cmp::Ord::cmp(&wa.x, &wb.x); let e = o_cmp(a, b); out.check(g == e, "ordlayout_25", "cmp_neighbours", || format!("cmp({}, {}) with neighbour bytes {} = {:?} expected {:?}", show(a), show(b), n, g, e)); } } } }
