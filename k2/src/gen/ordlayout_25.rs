// ordlayout_25
#![allow(dead_code, unused_variables, unused_mut, unused_imports, non_shorthand_field_patterns, clippy::all)]
use crate::support::*;
use educe::Educe;
use core::cmp::Ordering;
#[derive(Educe)]
#[educe(Eq, PartialOrd, PartialEq, Ord)]
pub enum T { A { other: i64, #[educe(PartialOrd(rank = "-2"))] arg: u8 }, V1 {  } }

pub fn values() -> Vec<T> { vec![T::A { other: -5, arg: 0 }, T::A { other: -5, arg: 100 }, T::A { other: -5, arg: 200 }, T::A { other: 0, arg: 0 }, T::A { other: 0, arg: 100 }, T::A { other: 0, arg: 200 }, T::A { other: 9, arg: 0 }, T::A { other: 9, arg: 100 }, T::A { other: 9, arg: 200 }, T::V1 {  }] }
pub fn show(x: &T) -> String { #[allow(unused_variables)] match x { T::A { other: p0, arg: p1 } => format!("A({},{})", sv(p0), sv(p1)), T::V1 {  } => format!("V1()") } }
pub fn o_disc(x: &T) -> i128 { match x { T::A { other: _, arg: _ } => 0, T::V1 {  } => 1 } }
pub fn o_cmp(a: &T, b: &T) -> Ordering { match (a, b) { (T::A { other: a0, arg: a1 }, T::A { other: b0, arg: b1 }) => { let c = ::core::cmp::Ord::cmp(a0, b0); if c != Ordering::Equal { return c; } let c = ::core::cmp::Ord::cmp(a1, b1); if c != Ordering::Equal { return c; } Ordering::Equal }, (T::V1 {  }, T::V1 {  }) => {  Ordering::Equal }, _ => o_disc(a).cmp(&o_disc(b)) } }
#[repr(C)] pub struct Wrap { pub pre: u8, pub x: T, pub post: [u8; 9] }
pub fn wrap(i: usize, n: u8) -> Wrap { Wrap { pre: n, x: values().swap_remove(i), post: [n; 9] } }
pub fn run(out: &mut Out) { let vs = values(); for (i, a) in vs.iter().enumerate() { for (j, b) in vs.iter().enumerate() { let e = o_cmp(a, b); let g = ::core::cmp::Ord::cmp(a, b); out.check(g == e, "ordlayout_25", "cmp", || format!("cmp({}, {}) = {:?} expected {:?}", show(a), show(b), g, e)); let g2 = ::core::cmp::PartialOrd::partial_cmp(a, b); out.check(g2 == Some(e), "ordlayout_25", "partial_is_some_cmp", || format!("partial_cmp({}, {}) = {:?} expected Some({:?})", show(a), show(b), g2, e)); for n in [0u8, 1, 0x7f, 0x80, 0xff] { let wa = wrap(i, n); let wb = wrap(j, !n); let g = ::core::cmp::Ord::cmp(&wa.x, &wb.x); let e = o_cmp(a, b); out.check(g == e, "ordlayout_25", "cmp_neighbours", || format!("cmp({}, {}) with neighbour bytes {} = {:?} expected {:?}", show(a), show(b), n, g, e)); } } } }
