// into_140
#![allow(dead_code, unused_variables, unused_mut, unused_imports, non_shorthand_field_patterns, clippy::all)]
use crate::support::*;
use educe::Educe;
use core::cmp::Ordering;
#[derive(Educe)]
#[educe(Into(B<1>))]
#[educe(Into(B<2>))]
pub enum T { None { #[educe(Into(B<2>, method = m_into))] _0: A<0>, #[educe(Into(B<1>))] size: A<1> }, Zed { #[educe(Into(B<2>, method = m_into))] y: A<1> }, C(#[educe(Into(B<2>))] A<3>, A<3>, #[educe(Into(B<1>))] A<2>), B { _0: A<2>, #[educe(Into(B<1>))] f: A<3>, #[educe(Into(B<2>))] a: A<3> } }
pub fn values() -> Vec<T> { vec![T::None { _0: A(0), size: A(0) }, T::None { _0: A(7), size: A(0) }, T::None { _0: A(1), size: A(0) }, T::Zed { y: A(0) }, T::Zed { y: A(1) }, T::Zed { y: A(7) }, T::C(A(1), A(7), A(0)), T::C(A(7), A(1), A(0)), T::C(A(0), A(1), A(0)), T::B { _0: A(7), f: A(7), a: A(7) }, T::B { _0: A(7), f: A(0), a: A(7) }, T::B { _0: A(1), f: A(1), a: A(7) }] }
pub fn show(x: &T) -> String { #[allow(unused_variables)] match x { T::None { _0: p0, size: p1 } => format!("None({},{})", sv(p0), sv(p1)), T::Zed { y: p0 } => format!("Zed({})", sv(p0)), T::C(p0, p1, p2) => format!("C({},{},{})", sv(p0), sv(p1), sv(p2)), T::B { _0: p0, f: p1, a: p2 } => format!("B({},{},{})", sv(p0), sv(p1), sv(p2)) } }
pub fn o_into_0(x: T) -> B<1> { match x { T::None { _0: _, size: p1 } => ::core::convert::Into::into(p1), T::Zed { y: p0 } => ::core::convert::Into::into(p0), T::C(_, _, p2) => ::core::convert::Into::into(p2), T::B { _0: _, f: p1, a: _ } => ::core::convert::Into::into(p1) } }
pub fn o_into_1(x: T) -> B<2> { match x { T::None { _0: p0, size: _ } => m_into(p0), T::Zed { y: p0 } => m_into(p0), T::C(p0, _, _) => ::core::convert::Into::into(p0), T::B { _0: _, f: _, a: p2 } => ::core::convert::Into::into(p2) } }
pub fn run(out: &mut Out) { let n = values().len(); for i in 0..n { let a = values().swap_remove(i); let shown = show(&a); let g: B<1> = ::core::convert::Into::into(a); let e = o_into_0(values().swap_remove(i)); out.check(sv(&g) == sv(&e), "into_140", "into", || format!("Into::<B<1>>::into({}) = {} expected {}", shown, sv(&g), sv(&e))); } for i in 0..n { let a = values().swap_remove(i); let shown = show(&a); let g: B<2> = ::core::convert::Into::into(a); let e = o_into_1(values().swap_remove(i)); out.check(sv(&g) == sv(&e), "into_140", "into", || format!("Into::<B<2>>::into({}) = {} expected {}", shown, sv(&g), sv(&e))); } }
