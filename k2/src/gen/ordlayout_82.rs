// ordlayout_82
#![allow(dead_code, unused_variables, unused_mut, unused_imports, non_shorthand_field_patterns, clippy::all)]
use crate::support::*;
use core::cmp::Ordering;
pub mod ty {
    #![deny(warnings)]
    #![allow(dead_code, unused_imports, non_snake_case)]
    use crate::support::{A, B, C, Good, Bad, m_eq, m_cmp, m_pcmp, m_hash, m_fmt, m_clone, m_clone_c, m_into, g_eq, g_cmp, g_pcmp, g_hash, g_fmt};
    use educe::Educe;
#[derive(Educe)]
#[repr(i64)]
#[educe(PartialOrd, Ord, Eq, PartialEq)]
pub enum T { A(bool, #[educe(PartialOrd(rank(4)))] &'static u8, #[educe(PartialOrd(ignore = false))] char), None { data: bool, #[educe(PartialOrd(rank = "+1"))] other_data: i64 }, Unit { data: u8, f: () }, Some }
}
pub use ty::T;

pub fn values() -> Vec<T> { vec![T::A(false, &3u8, 'a'), T::A(false, &3u8, 'z'), T::A(false, &200u8, 'a'), T::A(false, &200u8, 'z'), T::A(true, &3u8, 'a'), T::A(true, &3u8, 'z'), T::A(true, &200u8, 'a'), T::A(true, &200u8, 'z'), T::None { data: false, other_data: -5 }, T::None { data: false, other_data: 0 }, T::None { data: false, other_data: 9 }, T::None { data: true, other_data: -5 }, T::None { data: true, other_data: 0 }, T::None { data: true, other_data: 9 }, T::Unit { data: 0, f: () }, T::Unit { data: 100, f: () }, T::Unit { data: 200, f: () }, T::Some] }
pub fn show(x: &T) -> String { #[allow(unused_variables)] match x { T::A(p0, p1, p2) => format!("A({},{},{})", sv(p0), sv(p1), sv(p2)), T::None { data: p0, other_data: p1 } => format!("None({},{})", sv(p0), sv(p1)), T::Unit { data: p0, f: p1 } => format!("Unit({},{})", sv(p0), sv(p1)), T::Some => format!("Some()") } }
pub fn o_disc(x: &T) -> i128 { match x { T::A(_, _, _) => 0, T::None { data: _, other_data: _ } => 1, T::Unit { data: _, f: _ } => 2, T::Some => 3 } }
pub fn o_cmp(a: &T, b: &T) -> Ordering { match (a, b) { (T::A(a0, a1, a2), T::A(b0, b1, b2)) => { let c = ::core::cmp::Ord::cmp(a0, b0); if c != Ordering::Equal { return c; } let c = ::core::cmp::Ord::cmp(a2, b2); if c != Ordering::Equal { return c; } let c = ::core::cmp::Ord::cmp(a1, b1); if c != Ordering::Equal { return c; } Ordering::Equal }, (T::None { data: a0, other_data: a1 }, T::None { data: b0, other_data: b1 }) => { let c = ::core::cmp::Ord::cmp(a0, b0); if c != Ordering::Equal { return c; } let c = ::core::cmp::Ord::cmp(a1, b1); if c != Ordering::Equal { return c; } Ordering::Equal }, (T::Unit { data: a0, f: a1 }, T::Unit { data: b0, f: b1 }) => { let c = ::core::cmp::Ord::cmp(a0, b0); if c != Ordering::Equal { return c; } let c = ::core::cmp::Ord::cmp(a1, b1); if c != Ordering::Equal { return c; } Ordering::Equal }, (T::Some, T::Some) => {  Ordering::Equal }, _ => o_disc(a).cmp(&o_disc(b)) } }
#[repr(C)] pub struct Wrap { pub pre: u8, pub x: T, pub post: [u8; 9] }
pub fn wrap(i: usize, n: u8) -> Wrap { Wrap { pre: n, x: values().swap_remove(i), post: [n; 9] } }
pub fn run(out: &mut Out) { let vs = values(); for (i, a) in vs.iter().enumerate() { for (j, b) in vs.iter().enumerate() { let e = o_cmp(a, b); let g = ::core::cmp::Ord::cmp(a, b); out.check(g == e, "ordlayout_82", "cmp", || format!("cmp({}, {}) = {:?} expected {:?}", show(a), show(b), g, e)); let g2 = ::core::cmp::PartialOrd::partial_cmp(a, b); out.check(g2 == Some(e), "ordlayout_82", "partial_is_some_cmp", || format!("partial_cmp({}, {}) = {:?} expected Some({:?})", show(a), show(b), g2, e)); for n in [0u8, 1, 0x7f, 0x80, 0xff] { let wa = wrap(i, n); let wb = wrap(j, !n); let g = ::core::cmp::Ord::cmp(&wa.x, &wb.x); let e = o_cmp(a, b); out.check(g == e, "ordlayout_82", "cmp_neighbours", || format!("cmp({}, {}) with neighbour bytes {} = {:?} expected {:?}", show(a), show(b), n, g, e)); } } } }
