// ordlayout_82
#![allow(dead_code, unused_variables, unused_mut, unused_imports, non_shorthand_field_patterns, clippy::all)]
use crate::support::*;
use educe::Educe;
use core::cmp::Ordering;
#[derive(Educe)]
#[repr(isize)]
#[educe(Eq, PartialOrd, PartialEq)]
pub enum T { Some { #[educe(PartialOrd(rank = -2))] c: (), source: (), #[educe(PartialOrd(rank = 4))] builder: u8 }, Zed(#[educe(PartialOrd(rank = 7i64))] Option<u8>) = 2, C { #[educe(PartialOrd(rank = "0"))] a: (), #[educe(PartialOrd(rank = "-1"))] c: ::core::num::NonZeroU8 }, None }

pub fn values() -> Vec<T> { vec![T::Some { c: (), source: (), builder: 0 }, T::Some { c: (), source: (), builder: 100 }, T::Some { c: (), source: (), builder: 200 }, T::Zed(None), T::Zed(Some(0)), T::Zed(Some(255)), T::C { a: (), c: ::core::num::NonZeroU8::new(1).unwrap() }, T::C { a: (), c: ::core::num::NonZeroU8::new(200).unwrap() }, T::None] }
pub fn show(x: &T) -> String { #[allow(unused_variables)] match x { T::Some { c: p0, source: p1, builder: p2 } => format!("Some({},{},{})", sv(p0), sv(p1), sv(p2)), T::Zed(p0) => format!("Zed({})", sv(p0)), T::C { a: p0, c: p1 } => format!("C({},{})", sv(p0), sv(p1)), T::None => format!("None()") } }
pub fn o_disc(x: &T) -> i128 { match x { T::Some { c: _, source: _, builder: _ } => 0, T::Zed(_) => 2, T::C { a: _, c: _ } => 3, T::None => 4 } }
pub fn o_pcmp(a: &T, b: &T) -> Option<Ordering> { match (a, b) { (T::Some { c: a0, source: a1, builder: a2 }, T::Some { c: b0, source: b1, builder: b2 }) => { match ::core::cmp::PartialOrd::partial_cmp(a1, b1) { Some(Ordering::Equal) => (), x => return x } match ::core::cmp::PartialOrd::partial_cmp(a0, b0) { Some(Ordering::Equal) => (), x => return x } match ::core::cmp::PartialOrd::partial_cmp(a2, b2) { Some(Ordering::Equal) => (), x => return x } Some(Ordering::Equal) }, (T::Zed(a0), T::Zed(b0)) => { match ::core::cmp::PartialOrd::partial_cmp(a0, b0) { Some(Ordering::Equal) => (), x => return x } Some(Ordering::Equal) }, (T::C { a: a0, c: a1 }, T::C { a: b0, c: b1 }) => { match ::core::cmp::PartialOrd::partial_cmp(a1, b1) { Some(Ordering::Equal) => (), x => return x } match ::core::cmp::PartialOrd::partial_cmp(a0, b0) { Some(Ordering::Equal) => (), x => return x } Some(Ordering::Equal) }, (T::None, T::None) => {  Some(Ordering::Equal) }, _ => Some(o_disc(a).cmp(&o_disc(b))) } }
#[repr(C)] pub struct Wrap { pub pre: u8, pub x: T, pub post: [u8; 9] }
pub fn wrap(i: usize, n: u8) -> Wrap { Wrap { pre: n, x: values().swap_remove(i), post: [n; 9] } }
pub fn run(out: &mut Out) { let vs = values(); for (i, a) in vs.iter().enumerate() { for (j, b) in vs.iter().enumerate() { let e = o_pcmp(a, b); let g = ::core::cmp::PartialOrd::partial_cmp(a, b); out.check(g == e, "ordlayout_82", "partial_cmp", || format!("partial_cmp({}, {}) = {:?} expected {:?}", show(a), show(b), g, e)); for n in [0u8, 1, 0x7f, 0x80, 0xff] { let wa = wrap(i, n); let wb = wrap(j, !n); let g = ::core::cmp::PartialOrd::partial_cmp(&wa.x, &wb.x); let e = o_pcmp(a, b); out.check(g == e, "ordlayout_82", "cmp_neighbours", || format!("cmp({}, {}) with neighbour bytes {} = {:?} expected {:?}", show(a), show(b), n, g, e)); } } } }
