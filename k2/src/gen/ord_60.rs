// ord_60
#![allow(dead_code, unused_variables, unused_mut, unused_imports, non_shorthand_field_patterns, clippy::all)]
use crate::support::*;
use core::cmp::Ordering;
pub mod ty {
    #![deny(warnings)]
    #![allow(dead_code, unused_imports, non_snake_case)]
    use crate::support::{A, B, C, Good, Bad, m_eq, m_cmp, m_pcmp, m_hash, m_fmt, m_clone, m_clone_c, m_into, g_eq, g_cmp, g_pcmp, g_hash, g_fmt};
    use educe::Educe;
#[derive(Educe)]
#[repr(isize)]
#[educe(PartialOrd, Eq, Ord, PartialEq)]
pub enum T { A { #[educe(Ord(rank = -5, method(m_cmp)))] other: A<0>, #[educe(Ord(rank(1), method(m_cmp)))] f: A<1> }, Zed(), Some { other: A<0>, #[educe(Ord(method(m_cmp)))] other_data: A<1>, #[educe(Ord(rank("4")))] a: A<0>, _other_data: A<3> } = 70000, None(#[educe(Ord(ignore(true)))] A<0>, A<1>, #[educe(Ord = false)] A<0>) }
}
pub use ty::T;

pub fn values() -> Vec<T> { vec![T::A { other: A(0), f: A(0) }, T::A { other: A(0), f: A(1) }, T::A { other: A(0), f: A(7) }, T::A { other: A(1), f: A(0) }, T::A { other: A(1), f: A(1) }, T::A { other: A(1), f: A(7) }, T::A { other: A(7), f: A(0) }, T::A { other: A(7), f: A(1) }, T::A { other: A(7), f: A(7) }, T::Zed(), T::Some { other: A(7), other_data: A(1), a: A(0), _other_data: A(7) }, T::Some { other: A(7), other_data: A(1), a: A(7), _other_data: A(1) }, T::Some { other: A(7), other_data: A(7), a: A(0), _other_data: A(0) }, T::Some { other: A(1), other_data: A(1), a: A(0), _other_data: A(0) }, T::Some { other: A(7), other_data: A(0), a: A(1), _other_data: A(7) }, T::Some { other: A(7), other_data: A(7), a: A(0), _other_data: A(7) }, T::Some { other: A(0), other_data: A(0), a: A(0), _other_data: A(7) }, T::Some { other: A(7), other_data: A(0), a: A(7), _other_data: A(7) }, T::Some { other: A(0), other_data: A(1), a: A(0), _other_data: A(1) }, T::None(A(7), A(1), A(1)), T::None(A(7), A(0), A(7)), T::None(A(1), A(7), A(1)), T::None(A(1), A(1), A(0)), T::None(A(1), A(7), A(0)), T::None(A(7), A(7), A(1)), T::None(A(0), A(1), A(0)), T::None(A(7), A(7), A(7)), T::None(A(0), A(0), A(7))] }
pub fn show(x: &T) -> String { #[allow(unused_variables)] match x { T::A { other: p0, f: p1 } => format!("A({},{})", sv(p0), sv(p1)), T::Zed() => format!("Zed()"), T::Some { other: p0, other_data: p1, a: p2, _other_data: p3 } => format!("Some({},{},{},{})", sv(p0), sv(p1), sv(p2), sv(p3)), T::None(p0, p1, p2) => format!("None({},{},{})", sv(p0), sv(p1), sv(p2)) } }
pub fn o_disc(x: &T) -> i128 { match x { T::A { other: _, f: _ } => 0, T::Zed() => 1, T::Some { other: _, other_data: _, a: _, _other_data: _ } => 70000, T::None(_, _, _) => 70001 } }
pub fn o_cmp(a: &T, b: &T) -> Ordering { match (a, b) { (T::A { other: a0, f: a1 }, T::A { other: b0, f: b1 }) => { let c = m_cmp(a0, b0); if c != Ordering::Equal { return c; } let c = m_cmp(a1, b1); if c != Ordering::Equal { return c; } Ordering::Equal }, (T::Zed(), T::Zed()) => {  Ordering::Equal }, (T::Some { other: a0, other_data: a1, a: a2, _other_data: a3 }, T::Some { other: b0, other_data: b1, a: b2, _other_data: b3 }) => { let c = ::core::cmp::Ord::cmp(a0, b0); if c != Ordering::Equal { return c; } let c = m_cmp(a1, b1); if c != Ordering::Equal { return c; } let c = ::core::cmp::Ord::cmp(a3, b3); if c != Ordering::Equal { return c; } let c = ::core::cmp::Ord::cmp(a2, b2); if c != Ordering::Equal { return c; } Ordering::Equal }, (T::None(a0, a1, a2), T::None(b0, b1, b2)) => { let c = ::core::cmp::Ord::cmp(a1, b1); if c != Ordering::Equal { return c; } Ordering::Equal }, _ => o_disc(a).cmp(&o_disc(b)) } }
pub fn run(out: &mut Out) { let vs = values(); for (i, a) in vs.iter().enumerate() { for (j, b) in vs.iter().enumerate() { let e = o_cmp(a, b); let g = ::core::cmp::Ord::cmp(a, b); out.check(g == e, "ord_60", "cmp", || format!("cmp({}, {}) = {:?} expected {:?}", show(a), show(b), g, e)); let g2 = ::core::cmp::PartialOrd::partial_cmp(a, b); out.check(g2 == Some(e), "ord_60", "partial_is_some_cmp", || format!("partial_cmp({}, {}) = {:?} expected Some({:?})", show(a), show(b), g2, e)); } } }
