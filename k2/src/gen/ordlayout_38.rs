// ordlayout_38
#![allow(dead_code, unused_variables, unused_mut, unused_imports, non_shorthand_field_patterns, clippy::all)]
use crate::support::*;
use core::cmp::Ordering;
pub mod ty {
    #![deny(warnings)]
    #![allow(dead_code, unused_imports, non_snake_case)]
    use crate::support::{A, B, C, Good, Bad, m_eq, m_cmp, m_pcmp, m_hash, m_fmt, m_clone, m_clone_c, m_into, g_eq, g_cmp, g_pcmp, g_hash, g_fmt};
    use educe::Educe;
#[derive(Educe)]
#[repr(i64)]
#[educe(PartialEq, Eq, PartialOrd)]
#[educe(Debug)]
pub enum T { A(#[educe(PartialOrd(rank = "+5"), Debug(ignore = false))] Option<u8>, #[educe(Debug(ignore), PartialOrd(rank = "+2"))] char, #[educe(PartialOrd(rank("-3")))] &'static u8) = -1, B(#[educe(PartialOrd(rank("-1")))] bool, #[educe(Debug(ignore = false))] #[educe(PartialOrd(rank("2")))] i64), Zed { y: char } = 128, None(#[educe(PartialOrd(ignore = false))] i64) = 127 }
}
pub use ty::T;

pub fn values() -> Vec<T> { vec![T::A(Some(255), 'z', &3u8), T::A(None, 'a', &200u8), T::A(None, 'z', &3u8), T::A(Some(0), 'z', &3u8), T::A(Some(255), 'a', &200u8), T::A(None, 'z', &200u8), T::A(None, 'a', &3u8), T::A(Some(255), 'a', &3u8), T::A(Some(0), 'z', &200u8), T::B(false, -5), T::B(false, 0), T::B(false, 9), T::B(true, -5), T::B(true, 0), T::B(true, 9), T::Zed { y: 'a' }, T::Zed { y: 'z' }, T::None(-5), T::None(0), T::None(9)] }
pub fn show(x: &T) -> String { #[allow(unused_variables)] match x { T::A(p0, p1, p2) => format!("A({},{},{})", sv(p0), sv(p1), sv(p2)), T::B(p0, p1) => format!("B({},{})", sv(p0), sv(p1)), T::Zed { y: p0 } => format!("Zed({})", sv(p0)), T::None(p0) => format!("None({})", sv(p0)) } }
pub fn o_disc(x: &T) -> i128 { match x { T::A(_, _, _) => -1, T::B(_, _) => 0, T::Zed { y: _ } => 128, T::None(_) => 127 } }
pub fn o_pcmp(a: &T, b: &T) -> Option<Ordering> { match (a, b) { (T::A(a0, a1, a2), T::A(b0, b1, b2)) => { match ::core::cmp::PartialOrd::partial_cmp(a2, b2) { Some(Ordering::Equal) => (), x => return x } match ::core::cmp::PartialOrd::partial_cmp(a1, b1) { Some(Ordering::Equal) => (), x => return x } match ::core::cmp::PartialOrd::partial_cmp(a0, b0) { Some(Ordering::Equal) => (), x => return x } Some(Ordering::Equal) }, (T::B(a0, a1), T::B(b0, b1)) => { match ::core::cmp::PartialOrd::partial_cmp(a0, b0) { Some(Ordering::Equal) => (), x => return x } match ::core::cmp::PartialOrd::partial_cmp(a1, b1) { Some(Ordering::Equal) => (), x => return x } Some(Ordering::Equal) }, (T::Zed { y: a0 }, T::Zed { y: b0 }) => { match ::core::cmp::PartialOrd::partial_cmp(a0, b0) { Some(Ordering::Equal) => (), x => return x } Some(Ordering::Equal) }, (T::None(a0), T::None(b0)) => { match ::core::cmp::PartialOrd::partial_cmp(a0, b0) { Some(Ordering::Equal) => (), x => return x } Some(Ordering::Equal) }, _ => Some(o_disc(a).cmp(&o_disc(b))) } }
#[repr(C)] pub struct Wrap { pub pre: u8, pub x: T, pub post: [u8; 9] }
pub fn wrap(i: usize, n: u8) -> Wrap { Wrap { pre: n, x: values().swap_remove(i), post: [n; 9] } }
pub fn run(out: &mut Out) { let vs = values(); for (i, a) in vs.iter().enumerate() { for (j, b) in vs.iter().enumerate() { let e = o_pcmp(a, b); let g = ::core::cmp::PartialOrd::partial_cmp(a, b); out.check(g == e, "ordlayout_38", "partial_cmp", || format!("partial_cmp({}, {}) = {:?} expected {:?}", show(a), show(b), g, e)); for n in [0u8, 1, 0x7f, 0x80, 0xff] { let wa = wrap(i, n); let wb = wrap(j, !n); let g = ::core::cmp::PartialOrd::partial_cmp(&wa.x, &wb.x); let e = o_pcmp(a, b); out.check(g == e, "ordlayout_38", "cmp_neighbours", || format!("cmp({}, {}) with neighbour bytes {} = {:?} expected {:?}", show(a), show(b), n, g, e)); } } } }
