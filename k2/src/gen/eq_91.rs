// eq_91
#![allow(dead_code, unused_variables, unused_mut, unused_imports, non_shorthand_field_patterns, clippy::all)]
use crate::support::*;
use educe::Educe;
use core::cmp::Ordering;
#[derive(Educe)]
#[educe(PartialEq)]
pub struct T { #[educe(PartialEq(ignore = true))] a: A<0>, #[educe(PartialEq(ignore = false))] f: A<1>, #[educe(PartialEq(method("m_eq")))] b: A<2> }
pub fn values() -> Vec<T> { vec![T { a: A(0), f: A(0), b: A(0) }, T { a: A(0), f: A(0), b: A(1) }, T { a: A(0), f: A(0), b: A(7) }, T { a: A(0), f: A(1), b: A(0) }, T { a: A(0), f: A(1), b: A(1) }, T { a: A(0), f: A(1), b: A(7) }, T { a: A(0), f: A(7), b: A(0) }, T { a: A(0), f: A(7), b: A(1) }, T { a: A(0), f: A(7), b: A(7) }, T { a: A(1), f: A(0), b: A(0) }, T { a: A(1), f: A(0), b: A(1) }, T { a: A(1), f: A(0), b: A(7) }, T { a: A(1), f: A(1), b: A(0) }, T { a: A(1), f: A(1), b: A(1) }, T { a: A(1), f: A(1), b: A(7) }, T { a: A(1), f: A(7), b: A(0) }, T { a: A(1), f: A(7), b: A(1) }, T { a: A(1), f: A(7), b: A(7) }, T { a: A(7), f: A(0), b: A(0) }, T { a: A(7), f: A(0), b: A(1) }, T { a: A(7), f: A(0), b: A(7) }, T { a: A(7), f: A(1), b: A(0) }, T { a: A(7), f: A(1), b: A(1) }, T { a: A(7), f: A(1), b: A(7) }, T { a: A(7), f: A(7), b: A(0) }, T { a: A(7), f: A(7), b: A(1) }, T { a: A(7), f: A(7), b: A(7) }] }
pub fn show(x: &T) -> String { #[allow(unused_variables)] match x { T { a: p0, f: p1, b: p2 } => format!("T({},{},{})", sv(p0), sv(p1), sv(p2)) } }
pub fn o_eq(a: &T, b: &T) -> bool { match (a, b) { (T { a: a0, f: a1, b: a2 }, T { a: b0, f: b1, b: b2 }) => (a1 == b1) && m_eq(a2, b2) } }
pub fn run(out: &mut Out) { let vs = values(); for a in &vs { for b in &vs { let e = o_eq(a, b); out.check((a == b) == e, "eq_91", "eq", || format!("{} == {} expected {}", show(a), show(b), e)); out.check((a != b) == !e, "eq_91", "ne", || format!("{} != {} expected {}", show(a), show(b), !e)); } } }
