// ordlayout_126
#![allow(dead_code, unused_variables, unused_mut, unused_imports, non_shorthand_field_patterns, clippy::all)]
use crate::support::*;
use core::cmp::Ordering;
pub mod ty {
    #![deny(warnings)]
    #![allow(dead_code, unused_imports, non_snake_case)]
    use crate::support::{A, B, C, Good, Bad, m_eq, m_cmp, m_pcmp, m_hash, m_fmt, m_clone, m_clone_c, m_into, g_eq, g_cmp, g_pcmp, g_hash, g_fmt};
    use educe::Educe;
#[derive(Educe)]
#[repr(i128)]
#[educe(Debug)]
#[educe(Ord, PartialEq, PartialOrd, Eq)]
pub enum T { V1 = -1267650600228229401496703205376, C { #[educe(PartialOrd(rank = 0x6), Debug(ignore = true))] other: Option<u8>, #[educe(Debug(ignore = true))] c: &'static u8 }, None(#[educe(PartialOrd(ignore = false))] u8, #[educe(PartialOrd(rank("-3")))] bool) = 18446744073709551617 }
}
pub use ty::T;

pub fn values() -> Vec<T> { vec![T::V1, T::C { other: None, c: &3u8 }, T::C { other: None, c: &200u8 }, T::C { other: Some(0), c: &3u8 }, T::C { other: Some(0), c: &200u8 }, T::C { other: Some(255), c: &3u8 }, T::C { other: Some(255), c: &200u8 }, T::None(0, false), T::None(0, true), T::None(100, false), T::None(100, true), T::None(200, false), T::None(200, true)] }
pub fn show(x: &T) -> String { #[allow(unused_variables)] match x { T::V1 => format!("V1()"), T::C { other: p0, c: p1 } => format!("C({},{})", sv(p0), sv(p1)), T::None(p0, p1) => format!("None({},{})", sv(p0), sv(p1)) } }
pub fn o_disc(x: &T) -> i128 { match x { T::V1 => -1267650600228229401496703205376, T::C { other: _, c: _ } => -1267650600228229401496703205375, T::None(_, _) => 18446744073709551617 } }
pub fn o_cmp(a: &T, b: &T) -> Ordering { match (a, b) { (T::V1, T::V1) => {  Ordering::Equal }, (T::C { other: a0, c: a1 }, T::C { other: b0, c: b1 }) => { let c = ::core::cmp::Ord::cmp(a1, b1); if c != Ordering::Equal { return c; } let c = ::core::cmp::Ord::cmp(a0, b0); if c != Ordering::Equal { return c; } Ordering::Equal }, (T::None(a0, a1), T::None(b0, b1)) => { let c = ::core::cmp::Ord::cmp(a0, b0); if c != Ordering::Equal { return c; } let c = ::core::cmp::Ord::cmp(a1, b1); if c != Ordering::Equal { return c; } Ordering::Equal }, _ => o_disc(a).cmp(&o_disc(b)) } }
#[repr(C)] pub struct Wrap { pub pre: u8, pub x: T, pub post: [u8; 9] }
pub fn wrap(i: usize, n: u8) -> Wrap { Wrap { pre: n, x: values().swap_remove(i), post: [n; 9] } }
pub fn run(out: &mut Out) { let vs = values(); for (i, a) in vs.iter().enumerate() { for (j, b) in vs.iter().enumerate() { let e = o_cmp(a, b); let g = ::core::cmp::Ord::cmp(a, b); out.check(g == e, "ordlayout_126", "cmp", || format!("cmp({}, {}) = {:?} expected {:?}", show(a), show(b), g, e)); let g2 = ::core::cmp::PartialOrd::partial_cmp(a, b); out.check(g2 == Some(e), "ordlayout_126", "partial_is_some_cmp", || format!("partial_cmp({}, {}) = {:?} expected Some({:?})", show(a), show(b), g2, e)); for n in [0u8, 1, 0x7f, 0x80, 0xff] { let wa = wrap(i, n); let wb = wrap(j, !n); let g = ::core::cmp::Ord::cmp(&wa.x, &wb.x); let e = o_cmp(a, b); out.check(g == e, "ordlayout_126", "cmp_neighbours", || format!("cmp({}, {}) with neighbour bytes {} = {:?} expected {:?}", show(a), show(b), n, g, e)); } } } }
