#![allow(clippy::all)]
mod support;
mod gen;
use support::Out;
fn main() {
    let mut out = Out { checks: 0, fails: 0 };
    { let before = out.checks; gen::union_0::run(&mut out); println!("RAN\tunion_0\t{}", out.checks - before); }
    { let before = out.checks; gen::union_1::run(&mut out); println!("RAN\tunion_1\t{}", out.checks - before); }
    { let before = out.checks; gen::union_2::run(&mut out); println!("RAN\tunion_2\t{}", out.checks - before); }
    { let before = out.checks; gen::union_3::run(&mut out); println!("RAN\tunion_3\t{}", out.checks - before); }
    { let before = out.checks; gen::union_4::run(&mut out); println!("RAN\tunion_4\t{}", out.checks - before); }
    { let before = out.checks; gen::union_5::run(&mut out); println!("RAN\tunion_5\t{}", out.checks - before); }
    { let before = out.checks; gen::union_6::run(&mut out); println!("RAN\tunion_6\t{}", out.checks - before); }
    { let before = out.checks; gen::union_7::run(&mut out); println!("RAN\tunion_7\t{}", out.checks - before); }
    { let before = out.checks; gen::union_8::run(&mut out); println!("RAN\tunion_8\t{}", out.checks - before); }
    { let before = out.checks; gen::union_9::run(&mut out); println!("RAN\tunion_9\t{}", out.checks - before); }
    { let before = out.checks; gen::union_10::run(&mut out); println!("RAN\tunion_10\t{}", out.checks - before); }
    { let before = out.checks; gen::union_11::run(&mut out); println!("RAN\tunion_11\t{}", out.checks - before); }
    { let before = out.checks; gen::union_12::run(&mut out); println!("RAN\tunion_12\t{}", out.checks - before); }
    { let before = out.checks; gen::union_13::run(&mut out); println!("RAN\tunion_13\t{}", out.checks - before); }
    { let before = out.checks; gen::union_14::run(&mut out); println!("RAN\tunion_14\t{}", out.checks - before); }
    { let before = out.checks; gen::union_15::run(&mut out); println!("RAN\tunion_15\t{}", out.checks - before); }
    { let before = out.checks; gen::union_16::run(&mut out); println!("RAN\tunion_16\t{}", out.checks - before); }
    { let before = out.checks; gen::union_17::run(&mut out); println!("RAN\tunion_17\t{}", out.checks - before); }
    { let before = out.checks; gen::union_18::run(&mut out); println!("RAN\tunion_18\t{}", out.checks - before); }
    { let before = out.checks; gen::union_19::run(&mut out); println!("RAN\tunion_19\t{}", out.checks - before); }
    { let before = out.checks; gen::union_20::run(&mut out); println!("RAN\tunion_20\t{}", out.checks - before); }
    { let before = out.checks; gen::union_21::run(&mut out); println!("RAN\tunion_21\t{}", out.checks - before); }
    { let before = out.checks; gen::union_22::run(&mut out); println!("RAN\tunion_22\t{}", out.checks - before); }
    { let before = out.checks; gen::union_23::run(&mut out); println!("RAN\tunion_23\t{}", out.checks - before); }
    { let before = out.checks; gen::union_24::run(&mut out); println!("RAN\tunion_24\t{}", out.checks - before); }
    { let before = out.checks; gen::union_25::run(&mut out); println!("RAN\tunion_25\t{}", out.checks - before); }
    { let before = out.checks; gen::union_26::run(&mut out); println!("RAN\tunion_26\t{}", out.checks - before); }
    { let before = out.checks; gen::union_27::run(&mut out); println!("RAN\tunion_27\t{}", out.checks - before); }
    { let before = out.checks; gen::union_28::run(&mut out); println!("RAN\tunion_28\t{}", out.checks - before); }
    { let before = out.checks; gen::union_29::run(&mut out); println!("RAN\tunion_29\t{}", out.checks - before); }
    { let before = out.checks; gen::union_30::run(&mut out); println!("RAN\tunion_30\t{}", out.checks - before); }
    { let before = out.checks; gen::union_31::run(&mut out); println!("RAN\tunion_31\t{}", out.checks - before); }
    { let before = out.checks; gen::union_32::run(&mut out); println!("RAN\tunion_32\t{}", out.checks - before); }
    { let before = out.checks; gen::union_33::run(&mut out); println!("RAN\tunion_33\t{}", out.checks - before); }
    { let before = out.checks; gen::union_34::run(&mut out); println!("RAN\tunion_34\t{}", out.checks - before); }
    { let before = out.checks; gen::union_35::run(&mut out); println!("RAN\tunion_35\t{}", out.checks - before); }
    { let before = out.checks; gen::union_36::run(&mut out); println!("RAN\tunion_36\t{}", out.checks - before); }
    { let before = out.checks; gen::union_37::run(&mut out); println!("RAN\tunion_37\t{}", out.checks - before); }
    { let before = out.checks; gen::union_38::run(&mut out); println!("RAN\tunion_38\t{}", out.checks - before); }
    { let before = out.checks; gen::union_39::run(&mut out); println!("RAN\tunion_39\t{}", out.checks - before); }
    println!("DONE\t{}\t{}", out.checks, out.fails);
}
