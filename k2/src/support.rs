//! Instrumented field types and custom methods implementing the fixed interpretation I0
//! (DESIGN.md Appendix C).  Everything the educed impls delegate to is defined here and logs
//! what it is asked to do, so the generated oracles can check *which* operation reached *which*
//! field with *which* operands.
#![allow(dead_code)]
use core::cmp::Ordering;
use core::fmt;
use core::hash::{Hash, Hasher};
use std::cell::RefCell;

thread_local! { pub static LOG: RefCell<Vec<String>> = RefCell::new(Vec::new()); }
pub fn log(s: String) { LOG.with(|l| l.borrow_mut().push(s)); }
pub fn take_log() -> Vec<String> { LOG.with(|l| core::mem::take(&mut *l.borrow_mut())) }

pub const NAN: u8 = 7;

/// An opaque field value; `K` distinguishes declared field types.  Value 7 is NaN-like.
pub struct A<const K: u8>(pub u8);
pub trait Val { fn v(&self) -> u8; fn k(&self) -> u8; }
impl<const K: u8> Val for A<K> { fn v(&self) -> u8 { self.0 } fn k(&self) -> u8 { K } }

impl<const K: u8> PartialEq for A<K> {
    fn eq(&self, o: &Self) -> bool { self.0 == o.0 && self.0 != NAN }
    #[allow(clippy::partialeq_ne_impl)]
    fn ne(&self, o: &Self) -> bool { !(self.0 == o.0 && self.0 != NAN) }
}
impl<const K: u8> Eq for A<K> {}
impl<const K: u8> PartialOrd for A<K> {
    fn partial_cmp(&self, o: &Self) -> Option<Ordering> {
        if self.0 == NAN || o.0 == NAN { None } else { Some(self.0.cmp(&o.0)) }
    }
}
impl<const K: u8> Ord for A<K> { fn cmp(&self, o: &Self) -> Ordering { self.0.cmp(&o.0) } }
impl<const K: u8> Hash for A<K> {
    fn hash<H: Hasher>(&self, h: &mut H) { h.write_u8(0xA0 + K); h.write_u8(self.0); }
}
impl<const K: u8> fmt::Debug for A<K> {
    fn fmt(&self, f: &mut fmt::Formatter<'_>) -> fmt::Result {
        if f.alternate() { write!(f, "A{}<\n{}\n>", K, self.0) } else { write!(f, "A{}<{}>", K, self.0) }
    }
}
impl<const K: u8> Clone for A<K> {
    fn clone(&self) -> Self { log(format!("clone A{} {}", K, self.0)); A(self.0) }
    fn clone_from(&mut self, s: &Self) { log(format!("clone_from A{} {}<-{}", K, self.0, s.0)); self.0 = s.0; }
}
impl<const K: u8> Default for A<K> { fn default() -> Self { A(40 + K) } }

/// a Copy flavour of the same thing (for Clone + Copy and unions)
#[derive(Copy)]
pub struct C<const K: u8>(pub u8);
/// a field type that implements none of the comparison / hashing / cloning traits (only `Debug`, for the noise trait):
/// legal exactly where the field is ignored or handled by a custom method
pub struct Nt(pub u8);
impl Val for Nt { fn v(&self) -> u8 { self.0 } fn k(&self) -> u8 { 9 } }
impl fmt::Debug for Nt { fn fmt(&self, f: &mut fmt::Formatter<'_>) -> fmt::Result { write!(f, "Nt<{}>", self.0) } }
impl<const K: u8> Val for C<K> { fn v(&self) -> u8 { self.0 } fn k(&self) -> u8 { K } }
impl<const K: u8> Clone for C<K> { fn clone(&self) -> Self { log(format!("clone C{} {}", K, self.0)); C(self.0) } }
impl<const K: u8> PartialEq for C<K> { fn eq(&self, o: &Self) -> bool { self.0 == o.0 } }
impl<const K: u8> fmt::Debug for C<K> {
    fn fmt(&self, f: &mut fmt::Formatter<'_>) -> fmt::Result { write!(f, "C{}<{}>", K, self.0) }
}
impl<const K: u8> Default for C<K> { fn default() -> Self { C(40 + K) } }

/// conversion targets
#[derive(Debug, PartialEq)]
pub struct B<const J: u8>(pub u16);
impl<const K: u8, const J: u8> From<A<K>> for B<J> { fn from(a: A<K>) -> Self { B(a.0 as u16 + 100 + 1000 * K as u16) } }

// ---- custom methods (deliberately asymmetric / distinguishable from the built-in behaviour)
pub fn m_eq<T: Val>(a: &T, b: &T) -> bool { log(format!("m_eq {} {}", a.v(), b.v())); a.v() <= b.v() }
/// an equality consistent with `m_hash` (which feeds `v`)
pub fn m_eqv<T: Val>(a: &T, b: &T) -> bool { a.v() == b.v() }
pub fn m_cmp<T: Val>(a: &T, b: &T) -> Ordering { b.v().cmp(&a.v()) }
pub fn m_pcmp<T: Val>(a: &T, b: &T) -> Option<Ordering> {
    if a.v() == NAN { None } else { Some(b.v().cmp(&a.v())) }
}
pub fn m_hash<T: Val, H: Hasher>(a: &T, h: &mut H) { h.write_u8(0xB0); h.write_u8(a.v()); }
pub fn m_fmt<T: Val>(a: &T, f: &mut fmt::Formatter<'_>) -> fmt::Result {
    if f.alternate() { write!(f, "M<\n{}\n>", a.v()) } else { write!(f, "M<{}>", a.v()) }
}
/// the same user methods behind a longer path with explicit generic arguments (`crate::support::g::m_eq::<0, _>`)
pub mod g {
    use super::*;
    pub fn m_eq<const Z: u8, T: Val>(a: &T, b: &T) -> bool { super::m_eq(a, b) }
    pub fn m_cmp<const Z: u8, T: Val>(a: &T, b: &T) -> Ordering { super::m_cmp(a, b) }
    pub fn m_pcmp<const Z: u8, T: Val>(a: &T, b: &T) -> Option<Ordering> { super::m_pcmp(a, b) }
    pub fn m_hash<const Z: u8, T: Val, H: Hasher>(a: &T, h: &mut H) { super::m_hash(a, h) }
    pub fn m_fmt<const Z: u8, T: Val>(a: &T, f: &mut fmt::Formatter<'_>) -> fmt::Result { super::m_fmt(a, f) }
    pub fn m_eqv<const Z: u8, T: Val>(a: &T, b: &T) -> bool { super::m_eqv(a, b) }
    pub fn m_clone<const Z: u8, const K: u8>(a: &A<K>) -> A<K> { super::m_clone(a) }
    pub fn m_clone_c<const Z: u8, const K: u8>(a: &C<K>) -> C<K> { super::m_clone_c(a) }
    pub fn m_into<const Z: u8, const K: u8, const J: u8>(a: A<K>) -> B<J> { super::m_into(a) }
    pub fn m_same<const Z: u8, const K: u8>(a: A<K>) -> A<K> { super::m_same(a) }
}
pub fn m_clone<const K: u8>(a: &A<K>) -> A<K> { log(format!("m_clone A{} {}", K, a.0)); A(a.0.wrapping_add(50)) }
pub fn m_clone_c<const K: u8>(a: &C<K>) -> C<K> { log(format!("m_clone C{} {}", K, a.0)); C(a.0.wrapping_add(50)) }
pub fn m_into<const K: u8, const J: u8>(a: A<K>) -> B<J> { B(a.0 as u16 + 200 + 1000 * K as u16) }

/// a hasher that records every call
#[derive(Default)]
pub struct Rec(pub Vec<String>);
impl Hasher for Rec {
    fn finish(&self) -> u64 { 0 }
    fn write(&mut self, b: &[u8]) { self.0.push(format!("write{:?}", b)); }
    fn write_u8(&mut self, i: u8) { self.0.push(format!("u8:{}", i)); }
    fn write_usize(&mut self, i: usize) { self.0.push(format!("usize:{}", i)); }
    fn write_isize(&mut self, i: isize) { self.0.push(format!("isize:{}", i)); }
    fn write_u32(&mut self, i: u32) { self.0.push(format!("u32:{}", i)); }
    fn write_u64(&mut self, i: u64) { self.0.push(format!("u64:{}", i)); }
}

pub struct Out { pub checks: u64, pub fails: u64 }
impl Out {
    pub fn check(&mut self, ok: bool, ty: &str, op: &str, detail: impl FnOnce() -> String) {
        self.checks += 1;
        if !ok {
            self.fails += 1;
            if self.fails <= 200 { println!("FAIL\t{}\t{}\t{}", ty, op, detail().replace('\n', "\\n")); }
        }
    }
}

/// stable rendering of a field value for reports and comparisons
pub trait Show { fn sv(&self) -> String; }
impl<const K: u8> Show for A<K> { fn sv(&self) -> String { format!("A{}:{}", K, self.0) } }
impl<const K: u8> Show for C<K> { fn sv(&self) -> String { format!("C{}:{}", K, self.0) } }
impl Show for Nt { fn sv(&self) -> String { format!("A9:{}", self.0) } }
impl<const J: u8> Show for B<J> { fn sv(&self) -> String { format!("B{}:{}", J, self.0) } }
macro_rules! show_debug { ($($t:ty),*) => { $(impl Show for $t { fn sv(&self) -> String { format!("{:?}", self) } })* } }
show_debug!(bool, char, u8, u16, u32, u64, i8, i16, i32, i64, i128, usize, isize, f32, f64, (), String, &'static str,
            Option<u8>, ::core::num::NonZeroU8, &'static u8, Vec<u8>);
pub fn sv<T: Show>(x: &T) -> String { x.sv() }

// ---- Debug oracles: a raw key (prints without quotes) and a method wrapper
pub struct Raw(pub &'static str);
impl fmt::Debug for Raw { fn fmt(&self, f: &mut fmt::Formatter<'_>) -> fmt::Result { f.write_str(self.0) } }
pub struct Wm<'a, T: Val>(pub &'a T);
impl<'a, T: Val> fmt::Debug for Wm<'a, T> { fn fmt(&self, f: &mut fmt::Formatter<'_>) -> fmt::Result { m_fmt(self.0, f) } }
/// formats through a closure (the oracle's own `fmt`)
pub struct Fm<F: Fn(&mut fmt::Formatter<'_>) -> fmt::Result>(pub F);
impl<F: Fn(&mut fmt::Formatter<'_>) -> fmt::Result> fmt::Debug for Fm<F> {
    fn fmt(&self, f: &mut fmt::Formatter<'_>) -> fmt::Result { (self.0)(f) }
}
impl<const K: u8> From<C<K>> for A<K> { fn from(c: C<K>) -> Self { A(c.0) } }
impl<const K: u8> Show for &'static A<K> { fn sv(&self) -> String { format!("&A{}:{}", K, self.0) } }
impl<const K: u8> Show for Option<&'static A<K>> { fn sv(&self) -> String { match self { None => "None".to_string(), Some(a) => format!("Some(&A{}:{})", K, a.0) } } }
impl<const K: u8> Show for &'static mut A<K> { fn sv(&self) -> String { format!("&mut A{}:{}", K, self.0) } }

// ---- C11: compile-time probes "does `T: Trait` hold?" (an inherent const shadows a trait const when its bounds hold)
/// an alias: not spelled as a primitive, so a literal default reaches it through `Into`
pub type Off = i64;
pub struct Good(pub u8);
pub struct Bad(pub u8);
impl PartialEq for Good { fn eq(&self, o: &Self) -> bool { self.0 == o.0 } }
impl Eq for Good {}
impl PartialOrd for Good { fn partial_cmp(&self, o: &Self) -> Option<Ordering> { Some(self.0.cmp(&o.0)) } }
impl Ord for Good { fn cmp(&self, o: &Self) -> Ordering { self.0.cmp(&o.0) } }
impl Hash for Good { fn hash<H: Hasher>(&self, h: &mut H) { h.write_u8(self.0) } }
impl fmt::Debug for Good { fn fmt(&self, f: &mut fmt::Formatter<'_>) -> fmt::Result { write!(f, "G{}", self.0) } }
impl Clone for Good { fn clone(&self) -> Self { Good(self.0) } }
impl Copy for Good {}
impl Default for Good { fn default() -> Self { Good(0) } }
/// implements the weaker trait of each companion pair only: PartialEq not Eq, PartialOrd not Ord, Clone not Copy
pub struct Half(pub u8);
impl PartialEq for Half { fn eq(&self, o: &Self) -> bool { self.0 == o.0 } }
impl PartialOrd for Half { fn partial_cmp(&self, o: &Self) -> Option<Ordering> { Some(self.0.cmp(&o.0)) } }
impl Hash for Half { fn hash<H: Hasher>(&self, h: &mut H) { h.write_u8(self.0) } }
impl fmt::Debug for Half { fn fmt(&self, f: &mut fmt::Formatter<'_>) -> fmt::Result { write!(f, "H{}", self.0) } }
impl Clone for Half { fn clone(&self) -> Self { Half(self.0) } }
impl Default for Half { fn default() -> Self { Half(0) } }
/// implements every trait the probes ask about, but NOT the marker `Mk`
#[derive(Debug, Clone, Copy, PartialEq, Eq, PartialOrd, Ord, Hash, Default)]
pub struct Full(pub u8);
pub struct Probe<T: ?Sized>(pub ::core::marker::PhantomData<T>);
pub trait ProbeFallback { const YES: bool = false; }
impl<T: ?Sized> ProbeFallback for Probe<T> {}
macro_rules! probe_trait { ($name:ident, $($bound:tt)*) => {
    pub mod $name { pub struct P<T: ?Sized>(pub ::core::marker::PhantomData<T>);
        impl<T: ?Sized + $($bound)*> P<T> { pub const YES: bool = true; }
        pub trait Fallback { const YES: bool = false; } impl<T: ?Sized> Fallback for P<T> {} } } }
probe_trait!(p_partial_eq, ::core::cmp::PartialEq);
probe_trait!(p_eq, ::core::cmp::Eq);
probe_trait!(p_partial_ord, ::core::cmp::PartialOrd);
probe_trait!(p_ord, ::core::cmp::Ord);
probe_trait!(p_hash, ::core::hash::Hash);
probe_trait!(p_debug, ::core::fmt::Debug);
probe_trait!(p_clone, ::core::clone::Clone);
probe_trait!(p_copy, ::core::marker::Copy);
probe_trait!(p_default, ::core::default::Default);
pub fn g_eq<T>(_: &T, _: &T) -> bool { true }
pub fn g_cmp<T>(_: &T, _: &T) -> Ordering { Ordering::Equal }
pub fn g_pcmp<T>(_: &T, _: &T) -> Option<Ordering> { None }
pub fn g_hash<T, H: Hasher>(_: &T, _: &mut H) {}
pub fn g_fmt<T>(_: &T, f: &mut fmt::Formatter<'_>) -> fmt::Result { f.write_str("g") }

/// a user newtype that bare literals reach through `Into` only (C08)
#[derive(Debug, PartialEq)]
pub struct N(pub i64);
impl From<i32> for N { fn from(x: i32) -> Self { N(x as i64) } }
impl Default for N { fn default() -> Self { N(77) } }
impl Show for N { fn sv(&self) -> String { format!("N{}", self.0) } }
/// no `Default` impl: only a field with its own default expression can have this type
#[derive(Debug, PartialEq)]
pub struct Nd(pub u8);
impl Show for Nd { fn sv(&self) -> String { format!("Nd{}", self.0) } }
#[derive(Debug, PartialEq)]
pub struct Fl(pub f64);
impl From<f64> for Fl { fn from(x: f64) -> Self { Fl(x) } }
impl Default for Fl { fn default() -> Self { Fl(0.25) } }
impl Show for Fl { fn sv(&self) -> String { format!("Fl{}", self.0) } }
pub fn g_clone<T>(_: &T) -> T { loop {} }
pub fn g_default<T>() -> T { loop {} }
pub fn g_into<T, U>(_: T) -> U { loop {} }
impl<const J: u8> From<Good> for B<J> { fn from(g: Good) -> Self { B(g.0 as u16) } }
probe_trait!(p_into_b0, ::core::convert::Into<crate::support::B<0>>);
probe_trait!(p_into_b1, ::core::convert::Into<crate::support::B<1>>);
/// marker trait for user where-clauses (C12)
pub trait Mk {}
impl Mk for Good {}
impl Mk for u8 {}
pub fn show_mk<X: Mk, const N: usize>(_: &[X; N], f: &mut fmt::Formatter<'_>) -> fmt::Result { f.write_str("mk") }
pub fn m_same<const K: u8>(a: A<K>) -> A<K> { A(a.0.wrapping_add(60)) }
impl From<Good> for u8 { fn from(g: Good) -> u8 { g.0 } }
